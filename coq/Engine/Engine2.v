(* Engine2.v -- the engine model, stage 2: a Gallina function for each Python method of simulation.py, arrival_node.py,
   node.py, exit_node.py, schedules.py and routing/routing.py that the scope of State2.v reaches, with the same order of
   effects.  Places where Python can raise are Err with their own site; the recursion
   accept -> decide_preempt -> preempt -> reroute -> release -> accept / release_blocked_individual -> release is on fuel.
   Independent of Engine.v (same names, own module).

   Where the model is deliberately coarser than Python (none of these is reachable by the generators; each would show as a
   K2 mismatch, not pass silently):
   - a retired server (deleted from node.servers by kill_server) stays alive in Python as an object some customer may still
     point to; the model keeps only its id in i_server: writes to it are no-ops, and detatch_server of such a server does not
     look at its offduty flag;
   - update_next_end_service_with_server collects s.cust even when it is False; the model skips a server without customer;
   - original_service_time copies service_time, which the model assumes to be a number (not a resume/restart/resample marker)
     at that point;
   - join-shortest-queue destinations must be service nodes (the exit node has no number_in_service: AttributeError in Python,
     E_NoNode here; LoadBalancing over the exit node is E_NoNode too);
   - arithmetic on float('inf') dates that Python would carry on with (shift_end = inf) is E_Inf. *)
From Coq Require Import ZArith List Bool Lia.
From RecordUpdate Require Import RecordUpdate.
From CiwV Require Import Sx Prelude Routing Sched.
From CiwV.Engine Require Import State2.
Import ListNotations.
Open Scope Z_scope.

Definition M (A : Type) := sim -> res (A * sim).
Definition ret {A} (a : A) : M A := fun s => Ok (a, s).
Definition bind {A B} (m : M A) (f : A -> M B) : M B :=
  fun s => match m s with Ok (a, s') => f a s' | Err e => Err e | OutOfFuel => OutOfFuel end.
Notation "x <- m ;; f" := (bind m (fun x => f)) (at level 61, m at next level, right associativity).
Notation "m ;;; f" := (bind m (fun _ => f)) (at level 61, right associativity).
Definition fail {A} (e : Z) : M A := fun _ => Err e.
Definition oof {A} : M A := fun _ => OutOfFuel.
Definition gets {A} (f : sim -> A) : M A := fun s => Ok (f s, s).
Definition modify (f : sim -> sim) : M unit := fun s => Ok (tt, f s).
Definition lift {A} (e : Z) (o : option A) : M A := match o with Some a => ret a | None => fail e end.

Definition nthZ {A} (l : list A) (i : Z) : option A := if i <? 0 then None else nth_error l (Z.to_nat i).
Fixpoint upd {A} (l : list A) (n : nat) (x : A) : list A :=
  match l, n with [], _ => [] | _ :: t, O => x :: t | h :: t, S k => h :: upd t k x end.
Definition updZ {A} (l : list A) (i : Z) (x : A) : list A := if i <? 0 then l else upd l (Z.to_nat i) x.

(* Python arithmetic on a value that may be False: False is 0 *)
Definition numo (o : option Z) : Z := match o with Some z => z | None => 0 end.

Fixpoint mapM {A B} (f : A -> M B) (l : list A) : M (list B) :=
  match l with [] => ret [] | a :: r => b <- f a ;; bs <- mapM f r ;; ret (b :: bs) end.
Fixpoint forM_ {A} (l : list A) (f : A -> M unit) : M unit :=
  match l with [] => ret tt | a :: r => f a ;;; forM_ r f end.

Section Engine.
  Variable cf : config.

  (* ---------- access ---------- *)
  Definition get_node (j : Z) : M node := fun s => match (if j <? 1 then None else nthZ (nodes s) (j - 1)) with Some nd => Ok (nd, s) | None => Err E_NoNode end.
  Definition put_node (nd : node) : M unit := modify (fun s => s <| nodes := updZ (nodes s) (n_id nd - 1) nd |>).
  Definition ncfg_of (j : Z) : M ncfg := lift E_Config (nthZ (cf_nodes cf) (j - 1)).

  Fixpoint find_ind (i : Z) (l : list ind) : option ind :=
    match l with [] => None | x :: r => if i_id x =? i then Some x else find_ind i r end.
  Fixpoint put_ind_l (x : ind) (l : list ind) : list ind :=
    match l with [] => [x] | y :: r => if i_id y =? i_id x then x :: r else y :: put_ind_l x r end.
  Fixpoint del_ind_l (i : Z) (l : list ind) : list ind :=
    match l with [] => [] | y :: r => if i_id y =? i then r else y :: del_ind_l i r end.
  Definition get_ind (i : Z) : M ind := fun s => match find_ind i (inds s) with Some x => Ok (x, s) | None => Err E_NoInd end.
  Definition put_ind (x : ind) : M unit := modify (fun s => s <| inds := put_ind_l x (inds s) |>).
  Definition del_ind (i : Z) : M unit := modify (fun s => s <| inds := del_ind_l i (inds s) |>).
  Definition upd_ind (i : Z) (f : ind -> ind) : M unit := x <- get_ind i ;; put_ind (f x).
  Definition upd_node (j : Z) (f : node -> node) : M unit := nd <- get_node j ;; put_node (f nd).
  Definition tnow : M Z := gets now.

  (* ---------- the oracle ---------- *)
  Definition draw_arr : M Z := fun s => match d_arr (dr s) with x :: r => Ok (x, s <| dr := dr s <| d_arr := r |> |>) | [] => Err E_Draw end.
  Definition draw_batch : M Z := fun s => match d_batch (dr s) with x :: r => Ok (x, s <| dr := dr s <| d_batch := r |> |>) | [] => Err E_Draw end.
  Definition draw_svc : M Z := fun s => match d_svc (dr s) with x :: r => Ok (x, s <| dr := dr s <| d_svc := r |> |>) | [] => Err E_Draw end.
  Definition draw_unif : M Z := fun s => match d_unif (dr s) with x :: r => Ok (x, s <| dr := dr s <| d_unif := r |> |>) | [] => Err E_Draw end.
  Definition draw_ren : M Z := fun s => match d_ren (dr s) with x :: r => Ok (x, s <| dr := dr s <| d_ren := r |> |>) | [] => Err E_Draw end.
  Definition draw_cct : M Z := fun s => match d_cct (dr s) with x :: r => Ok (x, s <| dr := dr s <| d_cct := r |> |>) | [] => Err E_Draw end.

  (* auxiliary.random_choice without weights: int(u * len); always consumes a draw *)
  Definition choice_uniform {A} (l : list A) : M A :=
    u <- draw_unif ;; lift E_Choice (nth_error l (rc_uniform (length l) u)).
  (* auxiliary.random_choice with weights in units of 1/den: draws only when the shortcut does not apply *)
  Definition choice_weighted (den : Z) (P : list Z) : M nat :=
    match P with
    | [] => fail E_Choice
    | p0 :: rest =>
      if (negb (Nat.eqb (length rest) 0)) && all_zero (removelast P) && (last P 0 =? den) then ret (length rest)
      else u <- draw_unif ;; match rc_loop den u p0 rest 0 with Some i => ret i | None => fail E_Choice end
    end.

  Definition log_rec (r : rec) : M unit := modify (fun s => s <| log := log s ++ [r] |>).

  (* ---------- ExitNode.accept ---------- *)
  Definition exit_accept (i : Z) (completed : bool) : M unit :=
    del_ind i ;;;
    modify (fun s => s <| exit_ids := exit_ids s ++ [i] |> <| exit_n := exit_n s + 1 |>
                       <| exit_completed := exit_completed s + (if completed then 1 else 0) |>).

  (* ---------- Node: small pieces ---------- *)
  Definition all_individuals (nd : node) : list Z := concat (n_queues nd).
  Definition nd_inf (nd : node) : bool := match n_c nd with None => true | Some _ => false end.
  Definition nc_slotted (nc : ncfg) : bool := match nc_srv nc with SSlot _ => true | _ => false end.
  Definition nc_sched (nc : ncfg) : bool := match nc_srv nc with SFixed => false | _ => true end.

  (* choose_next_customer: first priority class with a waiting customer (not ind.server), then the discipline *)
  Fixpoint waiting_of (q : list Z) (il : list ind) : list Z :=
    match q with
    | [] => []
    | i :: r => match find_ind i il with
                | Some x => match i_server x with None => i :: waiting_of r il | Some _ => waiting_of r il end
                | None => waiting_of r il
                end
    end.
  Fixpoint first_waiting (qs : list (list Z)) (il : list ind) : list Z :=
    match qs with [] => [] | q :: r => match waiting_of q il with [] => first_waiting r il | w => w end end.
  Definition choose_next_customer (j : Z) : M (option Z) :=
    nd <- get_node j ;;
    il <- gets inds ;;
    match first_waiting (n_queues nd) il with
    | [] => ret None
    | w0 :: wr =>
      nc <- ncfg_of j ;;
      if nc_disc nc =? 0 then ret (Some w0)
      else if nc_disc nc =? 1 then ret (Some (last wr w0))
      else x <- choice_uniform (w0 :: wr) ;; ret (Some x)
    end.

  Fixpoint find_free_server (l : list server) : option server :=
    match l with [] => None | sv :: r => if sv_busy sv then find_free_server r else Some sv end.
  (* find_free_server with a server_priority_function: sorted(servers, key) is stable, so the free server taken is the first
     one (in list order) whose key is minimal *)
  Definition spf_key (spf : Z) (cls : Z) (sv : server) : Z * Z :=
    if spf =? 1 then (- sv_id sv, 0)
    else if spf =? 2 then (sv_busy_time sv, sv_id sv)
    else ((sv_id sv + cls) mod 2, sv_id sv).
  Definition pair_lt (a b : Z * Z) : bool := (fst a <? fst b) || ((fst a =? fst b) && (snd a <? snd b)).
  Fixpoint first_min_free (key : server -> Z * Z) (l : list server) (best : option server) : option server :=
    match l with
    | [] => best
    | sv :: r =>
      if sv_busy sv then first_min_free key r best
      else match best with
           | None => first_min_free key r (Some sv)
           | Some b => if pair_lt (key sv) (key b) then first_min_free key r (Some sv) else first_min_free key r best
           end
    end.
  Definition find_free_server_for (spf cls : Z) (l : list server) : option server :=
    if spf =? 0 then find_free_server l else first_min_free (spf_key spf cls) l None.
  Fixpoint put_server_l (sv : server) (l : list server) : list server :=
    match l with [] => [] | y :: r => if sv_id y =? sv_id sv then sv :: r else y :: put_server_l sv r end.
  Fixpoint find_server (i : Z) (l : list server) : option server :=
    match l with [] => None | y :: r => if sv_id y =? i then Some y else find_server i r end.
  Fixpoint del_server_l (i : Z) (l : list server) : list server :=
    match l with [] => [] | y :: r => if sv_id y =? i then r else y :: del_server_l i r end.
  (* mutation of a server object; a server that is no longer in the list (retired) is an object nobody reads again *)
  Definition upd_server (j sid : Z) (f : server -> server) : M unit :=
    nd <- get_node j ;;
    match find_server sid (n_servers nd) with
    | Some sv => put_node (nd <| n_servers := put_server_l (f sv) (n_servers nd) |>)
    | None => ret tt
    end.

  Fixpoint remove_first (i : Z) (l : list Z) : option (list Z) :=
    match l with [] => None | h :: t => if h =? i then Some t else option_map (cons h) (remove_first i t) end.
  Fixpoint remove_pair (p : Z * Z) (l : list (Z * Z)) : option (list (Z * Z)) :=
    match l with [] => None | h :: t => if (fst h =? fst p) && (snd h =? snd p) then Some t else option_map (cons h) (remove_pair p t) end.

  Definition date_lt (a b : option Z) : bool := match a, b with Some x, Some y => x <? y | Some _, None => true | None, _ => false end.
  Definition date_eqb (a b : option Z) : bool := match a, b with Some x, Some y => x =? y | None, None => true | _, _ => false end.

  (* ---------- class change while waiting: bookkeeping ---------- *)
  Fixpoint scan_cc (q : list Z) (il : list ind) (best bi : option Z) : option (option Z * option Z) :=
    match q with
    | [] => Some (best, bi)
    | i :: r => match find_ind i il with
                | None => None
                | Some x => match i_ccd x with
                            | XU => None
                            | XI => scan_cc r il best bi
                            | XV z => if date_lt (Some z) best && (match i_server x with None => true | Some _ => false end)
                                      then scan_cc r il (Some z) (Some i) else scan_cc r il best bi
                            end
                end
    end.
  Definition find_next_class_change (j : Z) : M unit :=
    nd <- get_node j ;; il <- gets inds ;;
    r <- lift E_Attr (scan_cc (all_individuals nd) il None None) ;;
    put_node (nd <| n_nccd := fst r |> <| n_ncci := snd r |>).
  Fixpoint cct_loop (row : list bool) (b : Z) (best : option Z) (bc : Z) : M (option Z * Z) :=
    match row with
    | [] => ret (best, bc)
    | h :: r => if h then t <- draw_cct ;; (if date_lt (Some t) best then cct_loop r (b + 1) (Some t) b else cct_loop r (b + 1) best bc)
                else cct_loop r (b + 1) best bc
    end.
  Definition decide_class_change (j i : Z) : M unit :=
    if cf_dyn cf then
      x <- get_ind i ;;
      row <- lift E_Config (nthZ (cf_cct cf) (i_cls x)) ;;
      r <- cct_loop row 0 None (i_cls x) ;;
      t <- tnow ;;
      x' <- get_ind i ;;
      put_ind (x' <| i_ncls := Some (snd r) |> <| i_ccd := match fst r with None => XI | Some z => XV (t + z) end |>) ;;;
      find_next_class_change j
    else ret tt.
  Definition reset_class_change (j i : Z) : M unit :=
    if cf_dyn cf then
      upd_ind i (fun x => x <| i_ccd := XI |>) ;;;
      nd <- get_node j ;;
      (match n_ncci nd with Some k => if k =? i then find_next_class_change j else ret tt | None => ret tt end)
    else ret tt.

  (* ---------- service times ---------- *)
  Definition stime_num (x : ind) : M Z := if i_smark x =? 0 then ret (numo (i_stime x)) else fail E_Type.
  Definition give_service_time_after_preemption (i : Z) : M unit :=
    x <- get_ind i ;;
    if i_smark x =? 3 then st <- draw_svc ;; put_ind (x <| i_stime := Some st |> <| i_smark := 0 |>)
    else if i_smark x =? 2 then (match i_ost x with Some o => put_ind (x <| i_stime := Some o |> <| i_smark := 0 |>) | None => fail E_Attr end)
    else if i_smark x =? 1 then (match i_tleft x with Some o => put_ind (x <| i_stime := Some o |> <| i_smark := 0 |>) | None => fail E_Attr end)
    else ret tt.
  Definition give_individual_a_service_time (i : Z) : M unit :=
    x <- get_ind i ;;
    if (i_smark x =? 0) && (match i_stime x with None => true | Some _ => false end)
    then st <- draw_svc ;; put_ind (x <| i_stime := Some st |>)
    else give_service_time_after_preemption i.

  Definition attach_server (j sid i : Z) : M unit :=
    upd_server j sid (fun sv => sv <| sv_cust := Some i |> <| sv_busy := true |>) ;;;
    upd_ind i (fun x => x <| i_server := Some sid |>).
  Definition set_next_end (j sid : Z) (d : option Z) : M unit := upd_server j sid (fun sv => sv <| sv_next_end := d |>).

  Definition kill_server (j sid : Z) : M unit :=
    t <- tnow ;; nd <- get_node j ;;
    sv <- lift E_KillIndex (find_server sid (n_servers nd)) ;;
    let bt := sv_busy_time sv - sv_wrapped sv in
    put_node (nd <| n_overtime := n_overtime nd ++ [t - numo (sv_shift_end sv)] |>
                 <| n_all_busy := n_all_busy nd ++ [bt] |> <| n_all_total := n_all_total nd ++ [t - sv_start sv] |>
                 <| n_servers := del_server_l sid (n_servers nd) |>).

  Definition detatch_server (j sid i : Z) : M unit :=
    t <- tnow ;; nd <- get_node j ;; x <- get_ind i ;;
    put_ind (x <| i_server := None |>) ;;;
    match find_server sid (n_servers nd) with
    | None => ret tt
    | Some sv =>
      put_node (nd <| n_servers := put_server_l (sv <| sv_cust := None |> <| sv_busy := false |>
                         <| sv_busy_time := sv_busy_time sv - sv_wrapped sv + (numo (i_exit x) - numo (i_sst x)) |> <| sv_wrapped := 0 |>
                         <| sv_total_time := Some (t - sv_start sv) |>) (n_servers nd) |>) ;;;
      (if sv_offduty sv then kill_server j sid else ret tt)
    end.

  (* ---------- records ---------- *)
  Definition bump_rec (i : Z) : M unit := upd_ind i (fun x => x <| i_nrec := i_nrec x + 1 |>).
  Definition write_individual_record (j i : Z) : M unit :=
    x <- get_ind i ;; nd <- get_node j ;; nc <- ncfg_of j ;;
    sid <- (if nd_inf nd || nc_slotted nc then ret None else s <- lift E_NoServer (i_server x) ;; ret (Some s)) ;;
    log_rec (mkRec (i_id x) (i_pcls x) (i_ocls x) j 0 (i_arr x) (Some (numo (i_sst x) - numo (i_arr x))) (i_sst x)
                   (Some (numo (i_send x) - numo (i_sst x))) (i_send x) (Some (numo (i_exit x) - numo (i_send x))) (i_exit x) (i_dest x) (i_qa x) (i_qd x) sid) ;;;
    bump_rec i.
  Definition write_interruption_record (j i : Z) (dest : option Z) : M unit :=
    t <- tnow ;; x <- get_ind i ;; nc <- ncfg_of j ;;
    sid <- (if nc_slotted nc then ret None else s <- lift E_NoServer (i_server x) ;; ret (Some s)) ;;
    log_rec (mkRec (i_id x) (i_pcls x) (i_ocls x) j 1 (i_arr x) (Some (numo (i_sst x) - numo (i_arr x))) (i_sst x)
                   (i_ost x) None None (Some t) dest (i_qa x) (i_qd x) sid) ;;;
    bump_rec i.
  Definition write_reneging_record (j i : Z) : M unit :=
    x <- get_ind i ;;
    log_rec (mkRec (i_id x) (i_pcls x) (i_ocls x) j 2 (i_arr x) (Some (numo (i_exit x) - numo (i_arr x))) None None None None (i_exit x)
                   (i_dest x) (i_qa x) (i_qd x) None) ;;;
    bump_rec i.
  Definition write_br_record (j i : Z) (ty : Z) : M unit :=
    t <- tnow ;; nd <- get_node j ;; x <- get_ind i ;;
    log_rec (mkRec (i_id x) (i_pcls x) (i_ocls x) j ty (Some t) None None None None None (Some t) None (Some (n_pop nd)) None None) ;;;
    bump_rec i.

  Definition reset_individual_attributes (i : Z) : M unit :=
    upd_ind i (fun x => x <| i_arr := None |> <| i_stime := None |> <| i_smark := 0 |> <| i_sst := None |> <| i_send := None |>
                          <| i_exit := None |> <| i_qa := None |> <| i_qd := None |> <| i_dest := None |>).

  (* ---------- routing ---------- *)
  (* simulation.nodes[d].id_number for nodes = [arrival node] + nodes 1..n + [exit node]: Python's negative indices count from
     the end, the arrival node has no id_number (AttributeError), anything else is an IndexError *)
  Definition valid_dest (d : Z) : M Z :=
    n <- gets (fun s => Z.of_nat (length (nodes s))) ;;
    if (1 <=? d) && (d <=? n) then ret d
    else if (d =? -1) || (d =? n + 1) then ret (-1)
    else if (- (n + 1) <=? d) && (d <=? -2) then ret (n + 2 + d)
    else fail E_NoNode.
  (* JoinShortestQueue.next_node / LoadBalancing: the literal loop (== appends, < restarts), then the tie-break *)
  Fixpoint jsq_loop (lb : bool) (ds : list Z) (best : option Z) (acc : list Z) : M (list Z) :=
    match ds with
    | [] => ret acc
    | d :: r =>
      nd <- get_node d ;;
      let size := if lb then n_pop nd else n_pop nd - n_insvc nd in
      if date_eqb (Some size) best then jsq_loop lb r best (acc ++ [d])
      else if date_lt (Some size) best then jsq_loop lb r (Some size) [d]
      else jsq_loop lb r best acc
    end.
  Definition jsq_next (lb : bool) (ds : list Z) (order : bool) : M Z :=
    c <- jsq_loop lb ds None [] ;;
    if order then lift E_Index (hd_error c) else choice_uniform c.
  Definition get_cyc (c j : Z) : M Z :=
    s <- gets cyc ;; row <- lift E_Config (nthZ s c) ;; lift E_Config (nthZ row (j - 1)).
  Definition bump_cyc (c j : Z) : M unit :=
    modify (fun s => match nthZ (cyc s) c with
                     | Some row => match nthZ row (j - 1) with
                                   | Some p => s <| cyc := updZ (cyc s) c (updZ row (j - 1) (p + 1)) |>
                                   | None => s end
                     | None => s end).
  Definition node_router_next (r : nrouter) (c j : Z) : M Z :=
    match r with
    | RDirect to => ret to
    | RJockey to _ => ret to
    | RLeave => ret (-1)
    | RProb ds ps =>
      k <- choice_weighted 8 (ps ++ [8 - zsum ps]) ;;
      lift E_Choice (nth_error (ds ++ [-1]) k)
    | RJsq lb ds order => jsq_next lb ds order
    | RCycle cy =>
      p <- get_cyc c j ;;
      (match cy with [] => fail E_Index | _ => ret tt end) ;;;
      bump_cyc c j ;;;
      lift E_Index (nth_error cy (Z.to_nat (p mod Z.of_nat (length cy))))
    end.
  (* mode: 0 next_node, 1 next_node_for_rerouting, 2 next_node_for_jockeying *)
  Definition next_node_for (mode : Z) (j i : Z) : M Z :=
    x <- get_ind i ;;
    rt <- lift E_Config (nthZ (cf_routing cf) (i_cls x)) ;;
    d <- (match rt with
          | RtNR rs =>
            r <- lift E_Config (nthZ rs (j - 1)) ;;
            if mode =? 2 then (match r with RJockey _ jk => ret jk | _ => ret (-1) end)
            else node_router_next r (i_cls x) j
          | RtPB _ =>
            if mode =? 2 then ret (-1)
            else match i_route x with
                 | None => fail E_Attr
                 | Some [] => ret (-1)
                 | Some (step :: rest) =>
                   d <- lift E_Route (hd_error step) ;;
                   put_ind (x <| i_route := Some rest |>) ;;; ret d
                 end
          | RtFPB _ all ch =>
            if mode =? 2 then ret (-1)
            else match i_route x with
                 | None => fail E_Attr
                 | Some [] => ret (-1)
                 | Some (step :: rest) =>
                   d <- (if ch =? 0 then choice_uniform step else jsq_next (ch =? 2) step false) ;;
                   (if all then
                      step' <- lift E_Route (remove_first d step) ;;
                      put_ind (x <| i_route := Some (match step' with [] => rest | _ => step' :: rest end) |>)
                    else put_ind (x <| i_route := Some rest |>)) ;;;
                   ret d
                 end
          end) ;;
    valid_dest d.

  (* ---------- the blocks that start a service ---------- *)
  (* begin_service_if_possible_accept / preempt: always a fresh service time *)
  Definition start_fresh (j i : Z) (osid : option Z) (count : bool) : M unit :=
    (match osid with Some sid => attach_server j sid i | None => ret tt end) ;;;
    t <- tnow ;;
    st <- draw_svc ;;
    upd_ind i (fun x => x <| i_sst := Some t |> <| i_stime := Some st |> <| i_smark := 0 |> <| i_send := Some (t + st) |>) ;;;
    (if count then upd_node j (fun nd => nd <| n_insvc := n_insvc nd + 1 |>) else ret tt) ;;;
    reset_class_change j i ;;;
    (match osid with Some sid => set_next_end j sid (Some (t + st)) | None => ret tt end).
  (* begin_service_if_possible_release / _change_shift: give_individual_a_service_time *)
  Definition start_give (j i sid : Z) : M unit :=
    attach_server j sid i ;;;
    t <- tnow ;;
    upd_ind i (fun x => x <| i_sst := Some t |>) ;;;
    give_individual_a_service_time i ;;;
    x <- get_ind i ;; st <- stime_num x ;;
    put_ind (x <| i_send := Some (t + st) |>) ;;;
    upd_node j (fun nd => nd <| n_insvc := n_insvc nd + 1 |>) ;;;
    reset_class_change j i ;;;
    set_next_end j sid (Some (t + st)).
  (* preempt(): the pre-empting customer takes the victim's server; give_individual_a_service_time (it may itself have been pre-empted
     earlier and carry a resume / restart marker); number_in_service is not touched *)
  Definition start_preemptor (j i sid : Z) : M unit :=
    attach_server j sid i ;;;
    t <- tnow ;;
    upd_ind i (fun x => x <| i_sst := Some t |>) ;;;
    give_individual_a_service_time i ;;;
    x <- get_ind i ;; st <- stime_num x ;;
    put_ind (x <| i_send := Some (t + st) |>) ;;;
    reset_class_change j i ;;;
    set_next_end j sid (Some (t + st)).
  Definition begin_interrupted_individuals_service (j sid : Z) : M unit :=
    nd <- get_node j ;;
    i <- lift E_IntRemove (hd_error (n_interrupted nd)) ;;
    x <- get_ind i ;;
    (if i_blocked x then
       d <- lift E_NoNode (i_dest x) ;;
       dn <- get_node d ;;
       bq' <- lift E_BqRemove (remove_pair (j, i) (n_bq dn)) ;;
       put_node (dn <| n_bq := bq' |> <| n_lenbq := n_lenbq dn - 1 |>) ;;;
       put_ind (x <| i_dest := None |> <| i_blocked := false |>)
     else ret tt) ;;;
    attach_server j sid i ;;;
    give_service_time_after_preemption i ;;;
    t <- tnow ;;
    x1 <- get_ind i ;; st <- stime_num x1 ;;
    put_ind (x1 <| i_sst := Some t |> <| i_send := Some (t + st) |> <| i_interrupted := false |>) ;;;
    upd_node j (fun nd => nd <| n_insvc := n_insvc nd + 1 |>) ;;;
    set_next_end j sid (Some (t + st)) ;;;
    nd2 <- get_node j ;;
    l' <- lift E_IntRemove (remove_first i (n_interrupted nd2)) ;;
    put_node (nd2 <| n_interrupted := l' |> <| n_nint := n_nint nd2 - 1 |>).
  Definition serve_with (j sid : Z) : M unit :=
    nd <- get_node j ;;
    if 0 <? n_nint nd then begin_interrupted_individuals_service j sid
    else cand <- choose_next_customer j ;; match cand with None => ret tt | Some c => start_give j c sid end.
  Definition begin_service_if_possible_release (j : Z) (freed : option Z) : M unit :=
    match freed with
    | None => ret tt
    | Some sid =>
      nd <- get_node j ;;
      match find_server sid (n_servers nd) with None => ret tt | Some _ => serve_with j sid end
    end.

  Definition get_reneging_date (j i : Z) : M xz :=
    x <- get_ind i ;; nc <- ncfg_of j ;; t <- tnow ;;
    has <- lift E_Config (nthZ (nc_ren nc) (i_cls x)) ;;
    if has then s <- draw_ren ;; ret (XV (t + s)) else ret XI.

  Definition block_individual (j i d : Z) : M unit :=
    upd_ind i (fun x => x <| i_blocked := true |>) ;;;
    upd_node d (fun dn => dn <| n_bq := n_bq dn ++ [(j, i)] |> <| n_lenbq := n_lenbq dn + 1 |>).

  (* decide_preempt: the victim, if any (max = first maximal element) *)
  Fixpoint first_max {A} (key : A -> Z) (l : list A) (best : A) : A :=
    match l with [] => best | a :: r => if key best <? key a then first_max key r a else first_max key r best end.
  Definition preempt_victim (j i : Z) : M (option Z) :=
    nc <- ncfg_of j ;;
    if nc_preempt nc =? 0 then ret None
    else
      nd <- get_node j ;; il <- gets inds ;;
      ps <- lift E_NoServer (omap (fun sv => match sv_cust sv with
                                             | Some c => option_map (fun x => (c, (i_prio x, numo (i_sst x)))) (find_ind c il)
                                             | None => None end) (n_servers nd)) ;;
      match ps with
      | [] => fail E_MaxEmpty
      | p0 :: pr =>
        let least := fold_left Z.max (map (fun p => fst (snd p)) pr) (fst (snd p0)) in
        x <- get_ind i ;;
        if i_prio x <? least then
          match filter (fun p => fst (snd p) =? least) ps with
          | [] => fail E_MaxEmpty
          | c0 :: cr => ret (Some (fst (first_max (fun p => snd (snd p)) cr c0)))
          end
        else ret None
      end.

  (* ---------- the recursive core ---------- *)
  Fixpoint release (fuel : nat) (j i d : Z) (rr : bool) {struct fuel} : M unit :=
    match fuel with
    | O => oof
    | S f =>
      t <- tnow ;;
      x <- get_ind i ;;
      nd <- get_node j ;;
      nc <- ncfg_of j ;;
      q <- lift E_Remove (nthZ (n_queues nd) (i_pprio x)) ;;
      q' <- lift E_Remove (remove_first i q) ;;
      let nd1 := nd <| n_queues := updZ (n_queues nd) (i_pprio x) q' |> <| n_pop := n_pop nd - 1 |> <| n_insvc := n_insvc nd - 1 |> in
      put_node nd1 ;;;
      put_ind (x <| i_qd := Some (n_pop nd1) |> <| i_exit := Some t |>) ;;;
      (if rr then ret tt else write_individual_record j i) ;;;
      freed <- (if negb (nd_inf nd) && negb (nc_slotted nc)
                then x1 <- get_ind i ;; sid <- lift E_NoServer (i_server x1) ;; detatch_server j sid i ;;; ret (Some sid)
                else ret None) ;;
      (if nc_slotted nc then upd_ind i (fun y => y <| i_server := None |>) else ret tt) ;;;
      reset_individual_attributes i ;;;
      (if rr then ret tt else begin_service_if_possible_release j freed) ;;;
      (if d =? -1 then exit_accept i true else accept f d i) ;;;
      (if rr then ret tt else release_blocked_individual f j)
    end
  with release_blocked_individual (fuel : nat) (j : Z) {struct fuel} : M unit :=
    match fuel with
    | O => oof
    | S f =>
      nd <- get_node j ;; nc <- ncfg_of j ;;
      if (0 <? n_lenbq nd) && (match nc_cap nc with None => true | Some cap => n_pop nd <? cap end) then
        match n_bq nd with
        | [] => fail E_Index
        | (from, y) :: rest =>
          fnd <- get_node from ;;
          (if memZ y (all_individuals fnd) then ret tt else fail E_Index) ;;;
          put_node (nd <| n_bq := rest |> <| n_lenbq := n_lenbq nd - 1 |>) ;;;
          yx <- get_ind y ;;
          (if i_interrupted yx then
             os <- lift E_Attr (i_osst yx) ;; ot <- lift E_Attr (i_ost yx) ;;
             put_ind (yx <| i_interrupted := false |> <| i_sst := Some os |> <| i_send := Some (os + ot) |>) ;;;
             fnd2 <- get_node from ;;
             l' <- lift E_IntRemove (remove_first y (n_interrupted fnd2)) ;;
             put_node (fnd2 <| n_interrupted := l' |> <| n_nint := n_nint fnd2 - 1 |>)
           else ret tt) ;;;
          release f from y j false
        end
      else ret tt
    end
  with accept (fuel : nat) (j i : Z) {struct fuel} : M unit :=
    match fuel with
    | O => oof
    | S f =>
      x <- get_ind i ;; nd <- get_node j ;;
      put_ind (x <| i_node := Some j |> <| i_exit := None |> <| i_blocked := false |> <| i_ocls := i_cls x |> <| i_pcls := i_cls x |>
                 <| i_pprio := i_prio x |> <| i_qa := Some (n_pop nd) |>) ;;;
      qs <- lift E_Index (match nthZ (n_queues nd) (i_prio x) with Some q => Some (updZ (n_queues nd) (i_prio x) (q ++ [i])) | None => None end) ;;
      put_node (nd <| n_queues := qs |> <| n_pop := n_pop nd + 1 |>) ;;;
      (* begin_service_if_possible_accept *)
      t <- tnow ;;
      upd_ind i (fun y => y <| i_arr := Some t |>) ;;;
      nc <- ncfg_of j ;;
      (if nc_reneging nc then rd <- get_reneging_date j i ;; upd_ind i (fun y => y <| i_ren := rd |>) else ret tt) ;;;
      decide_class_change j i ;;;
      nd1 <- get_node j ;;
      let inf := nd_inf nd1 in
      cand <- (if inf then ret (Some i) else choose_next_customer j) ;;
      match cand with
      | None => ret tt
      | Some c =>
        if inf then start_fresh j c None true
        else
          cx <- get_ind c ;;
          match find_free_server_for (nc_spf nc) (i_cls cx) (n_servers nd1) with
             | Some sv => start_fresh j c (Some (sv_id sv)) true
             | None =>
               if 0 <? numo (n_c nd1) then
                 v <- preempt_victim j c ;;
                 match v with Some vi => preempt f j vi c | None => ret tt end
               else ret tt
             end
      end
    end
  with preempt (fuel : nat) (j v i : Z) {struct fuel} : M unit :=
    match fuel with
    | O => oof
    | S f =>
      t <- tnow ;;
      vx <- get_ind v ;; nc <- ncfg_of j ;;
      put_ind (vx <| i_ost := i_stime vx |>) ;;;
      (if nc_preempt nc =? 4 then
         d <- next_node_for 1 j v ;;
         write_interruption_record j v (Some d) ;;;
         release f j v d true
       else
         write_interruption_record j v None ;;;
         upd_ind v (fun y => y <| i_sst := None |> <| i_tleft := Some (numo (i_send y) - t) |> <| i_smark := nc_preempt nc |>
                              <| i_stime := None |> <| i_send := None |>) ;;;
         sid <- lift E_NoServer (i_server vx) ;;
         detatch_server j sid v ;;;
         decide_class_change j v) ;;;
      sid <- lift E_NoServer (i_server vx) ;;
      start_preemptor j i sid
    end.

  Definition fuel_of (s : sim) : nat := (200 + 4 * length (inds s) + 2 * length (concat (map (fun nd => n_bq nd) (nodes s))))%nat.

  Definition decide_between (l : list Z) : M Z :=
    match l with [] => fail E_NoInd | [a] => ret a | _ => choice_uniform l end.

  Definition change_customer_class (j i : Z) : M unit :=
    nc <- ncfg_of j ;; x <- get_ind i ;;
    match nc_ccm nc with
    | None => ret tt
    | Some m =>
      row <- lift E_Config (nthZ m (i_cls x)) ;;
      k <- choice_weighted 8 row ;;
      let c' := Z.of_nat k in
      p' <- lift E_Config (nthZ (cf_prio cf) c') ;;
      put_ind (x <| i_pcls := i_cls x |> <| i_cls := c' |> <| i_pprio := i_prio x |> <| i_prio := p' |>)
    end.

  Definition has_space (d : Z) : M bool :=
    if d =? -1 then ret true
    else dn <- get_node d ;; dc <- ncfg_of d ;; ret (match nc_cap dc with None => true | Some cap => n_pop dn <? cap end).

  Definition finish_service (j : Z) : M unit :=
    nd <- get_node j ;;
    i <- decide_between (n_next_inds nd) ;;
    change_customer_class j i ;;;
    d <- next_node_for 0 j i ;;
    upd_ind i (fun x => x <| i_dest := Some d |>) ;;;
    nc <- ncfg_of j ;;
    (if negb (nd_inf nd) && negb (nc_slotted nc)
     then x <- get_ind i ;; sid <- lift E_NoServer (i_server x) ;; set_next_end j sid None
     else ret tt) ;;;
    space <- has_space d ;;
    if space then (fl <- gets fuel_of ;; release fl j i d false) else block_individual j i d.

  Definition renege (j : Z) : M unit :=
    t <- tnow ;;
    nd <- get_node j ;;
    i <- decide_between (n_next_inds nd) ;;
    upd_ind i (fun x => x <| i_ren := XI |>) ;;;
    d <- next_node_for 2 j i ;;
    x <- get_ind i ;;
    nd1 <- get_node j ;;
    q <- lift E_Remove (nthZ (n_queues nd1) (i_pprio x)) ;;
    q' <- lift E_Remove (remove_first i q) ;;
    let nd2 := nd1 <| n_queues := updZ (n_queues nd1) (i_pprio x) q' |> <| n_pop := n_pop nd1 - 1 |> in
    put_node nd2 ;;;
    reset_class_change j i ;;;
    upd_ind i (fun y => y <| i_qd := Some (n_pop nd2) |> <| i_exit := Some t |> <| i_dest := Some d |>) ;;;
    write_reneging_record j i ;;;
    reset_individual_attributes i ;;;
    fl <- gets fuel_of ;;
    (if d =? -1 then exit_accept i false else accept fl d i) ;;;
    release_blocked_individual fl j.

  (* ---------- schedules ---------- *)
  Definition interrupt_service (fuel : nat) (j i pre : Z) : M unit :=
    t <- tnow ;;
    upd_ind i (fun x => x <| i_ost := i_stime x |>) ;;;
    if pre =? 4 then
      d <- next_node_for 1 j i ;;
      write_interruption_record j i (Some d) ;;;
      release fuel j i d true
    else
      upd_node j (fun nd => nd <| n_interrupted := n_interrupted nd ++ [i] |> <| n_nint := n_nint nd + 1 |>) ;;;
      upd_ind i (fun x => x <| i_interrupted := true |>) ;;;
      write_interruption_record j i None ;;;
      upd_ind i (fun x => x <| i_osst := i_sst x |> <| i_sst := None |> <| i_tleft := Some (numo (i_send x) - t) |> <| i_smark := pre |>
                           <| i_stime := None |> <| i_send := None |>) ;;;
      upd_node j (fun nd => nd <| n_insvc := n_insvc nd - 1 |>).

  (* list.sort(key = (priority_class, arrival_date)): stable *)
  Definition key_le (a b : Z * Z) : bool := (fst a <? fst b) || ((fst a =? fst b) && (snd a <=? snd b)).
  Fixpoint ins_key (k : Z * Z) (i : Z) (l : list ((Z * Z) * Z)) : list ((Z * Z) * Z) :=
    match l with
    | [] => [(k, i)]
    | (k', i') :: r => if key_le k' k then (k', i') :: ins_key k i r else (k, i) :: l
    end.
  Definition sort_by_key (l : list ((Z * Z) * Z)) : list Z :=
    map snd (fold_left (fun acc p => ins_key (fst p) (snd p) acc) l []).
  Definition keyed (l : list Z) : M (list ((Z * Z) * Z)) :=
    mapM (fun i => x <- get_ind i ;; ret ((i_prio x, numo (i_arr x)), i)) l.
  Definition sort_interrupted_individuals (j : Z) : M unit :=
    nd <- get_node j ;;
    kl <- keyed (n_interrupted nd) ;;
    put_node (nd <| n_interrupted := sort_by_key kl |>).

  Fixpoint off_duty_loop (k : nat) (fuel : nat) (j : Z) (idx : nat) (pre : Z) (se : option Z) : M unit :=
    match k with
    | O => ret tt
    | S k' =>
      nd <- get_node j ;;
      match nth_error (n_servers nd) idx with
      | None => ret tt
      | Some sv =>
        put_node (nd <| n_servers := put_server_l (sv <| sv_shift_end := se |>) (n_servers nd) |>) ;;;
        (match sv_cust sv with Some c => interrupt_service fuel j c pre | None => ret tt end) ;;;
        off_duty_loop k' fuel j (S idx) pre se
      end
    end.

  Definition take_servers_off_duty (fuel : nat) (j pre : Z) : M unit :=
    nd <- get_node j ;;
    (* shift_end = self.next_event_date; float('inf') cannot be stored by the model *)
    se <- (match n_next_date nd with Some d => ret (Some d) | None => fail E_Inf end) ;;
    if pre =? 0 then
      put_node (nd <| n_servers := map (fun sv => sv <| sv_shift_end := se |> <| sv_offduty := if sv_busy sv then true else sv_offduty sv |>) (n_servers nd) |>) ;;;
      forM_ (map sv_id (filter (fun sv => negb (sv_busy sv)) (n_servers nd))) (kill_server j)
    else
      off_duty_loop (S (length (n_servers nd))) fuel j 0 pre se ;;;
      sort_interrupted_individuals j ;;;
      forM_ (map sv_id (n_servers nd)) (kill_server j).

  Fixpoint add_new_servers (k : nat) (j : Z) : M unit :=
    match k with
    | O => ret tt
    | S k' =>
      t <- tnow ;;
      upd_node j (fun nd => nd <| n_highest := n_highest nd + 1 |>
                               <| n_servers := n_servers nd ++ [mkServer (n_highest nd + 1) None false None 0 None 0 false t None] |>) ;;;
      add_new_servers k' j
    end.

  Definition begin_service_if_possible_change_shift (j : Z) : M unit :=
    nd <- get_node j ;;
    forM_ (map sv_id (filter (fun sv => negb (sv_busy sv)) (n_servers nd))) (serve_with j).

  Definition change_shift (j : Z) : M unit :=
    nc <- ncfg_of j ;;
    match nc_srv nc with
    | SSched sc =>
      nd <- get_node j ;;
      (match sc_b sc with [] => fail E_Config | _ => ret tt end) ;;;
      let pos := Z.to_nat (n_spos nd) in
      let n := length (sc_b sc) in
      (* get_next_shift: c = next_c = values[pos mod n]; the generator yields its pos-th date *)
      let newc := nth (pos mod n) (sc_v sc) 0 in
      put_node (nd <| n_spos := n_spos nd + 1 |> <| n_next_shift := Some (gen_date (sc_b sc) (sc_off sc) pos) |> <| n_c := Some newc |>) ;;;
      fl <- gets fuel_of ;;
      take_servers_off_duty fl j (sc_pre sc) ;;;
      add_new_servers (Z.to_nat newc) j ;;;
      begin_service_if_possible_change_shift j
    | _ => fail E_Config
    end.

  (* ---------- slotted services ---------- *)
  Definition slot_values (sl : slotcfg) (pos : nat) : Z * Z :=       (* (slot_size, next_slot_date) after pos calls of get_next_slot *)
    match pos with
    | O => (0, 0)
    | S m => let n := length (sl_b sl) in
             let nss := last (sl_v sl) 0 :: removelast (sl_v sl) in
             (nth ((m + 1) mod n) nss 0, gen_date (sl_b sl) (sl_off sl) m)
    end.
  (* sorted(..., key=(priority_class, arrival_date), reverse=True): descending, equal keys keep their order *)
  Definition key_ge (a b : Z * Z) : bool := key_le b a.
  Fixpoint ins_key_desc (k : Z * Z) (i : Z) (l : list ((Z * Z) * Z)) : list ((Z * Z) * Z) :=
    match l with
    | [] => [(k, i)]
    | (k', i') :: r => if key_ge k' k then (k', i') :: ins_key_desc k i r else (k, i) :: l
    end.
  Definition sort_by_key_desc (l : list ((Z * Z) * Z)) : list Z :=
    map snd (fold_left (fun acc p => ins_key_desc (fst p) (snd p) acc) l []).
  Fixpoint slot_loop (k : nat) (j : Z) : M unit :=
    match k with
    | O => ret tt
    | S k' =>
      t <- tnow ;;
      nd <- get_node j ;;
      cand <- (if 0 <? n_nint nd then
                 i <- lift E_IntRemove (hd_error (n_interrupted nd)) ;;
                 l' <- lift E_IntRemove (remove_first i (n_interrupted nd)) ;;
                 put_node (nd <| n_interrupted := l' |> <| n_nint := n_nint nd - 1 |>) ;;;
                 upd_ind i (fun x => x <| i_interrupted := false |>) ;;; ret (Some i)
               else choose_next_customer j) ;;
      (match cand with
       | None => ret tt
       | Some i =>
         upd_ind i (fun x => x <| i_sst := Some t |>) ;;;
         give_individual_a_service_time i ;;;
         x <- get_ind i ;; st <- stime_num x ;;
         put_ind (x <| i_send := Some (t + st) |> <| i_server := Some (-1) |>) ;;;
         upd_node j (fun n' => n' <| n_insvc := n_insvc n' + 1 |>) ;;;
         reset_class_change j i
       end) ;;;
      slot_loop k' j
    end.
  Definition slotted_service (j : Z) : M unit :=
    nc <- ncfg_of j ;;
    match nc_srv nc with
    | SSlot sl =>
      nd <- get_node j ;;
      (match sl_b sl with [] => fail E_Config | _ => ret tt end) ;;;
      let size := fst (slot_values sl (Z.to_nat (n_spos nd))) in
      let num := if sl_cap sl then Z.min (Z.max (size - n_insvc nd) 0) (n_pop nd) else Z.min size (n_pop nd) in
      (* interrupt_slotted_services *)
      (if sl_cap sl && negb (sl_pre sl =? 0) then
         let k := n_insvc nd - size in
         if 0 <? k then
           il <- gets inds ;;
           let started := filter (fun i => match find_ind i il with Some x => match i_sst x with Some _ => true | None => false end | None => false end) (all_individuals nd) in
           kl <- keyed started ;;
           fl <- gets fuel_of ;;
           forM_ (firstn (Z.to_nat k) (sort_by_key_desc kl)) (fun i => interrupt_service fl j i (sl_pre sl))
         else ret tt
       else ret tt) ;;;
      slot_loop (Z.to_nat num) j ;;;
      upd_node j (fun n' => n' <| n_spos := n_spos n' + 1 |>)
    | _ => fail E_Config
    end.

  (* ---------- class change while waiting ---------- *)
  Definition change_customer_class_while_waiting (j : Z) : M unit :=
    nd <- get_node j ;;
    i <- lift E_NoInd (hd_error (n_next_inds nd)) ;;
    x <- get_ind i ;;
    nc' <- lift E_Attr (i_ncls x) ;;
    p' <- lift E_Config (nthZ (cf_prio cf) nc') ;;
    put_ind (x <| i_cls := nc' |> <| i_prio := p' |>) ;;;
    (if negb (p' =? i_pprio x) then
       q <- lift E_Remove (nthZ (n_queues nd) (i_pprio x)) ;;
       q' <- lift E_Remove (remove_first i q) ;;
       let qs1 := updZ (n_queues nd) (i_pprio x) q' in
       qn <- lift E_Index (nthZ qs1 p') ;;
       put_node (nd <| n_queues := updZ qs1 p' (qn ++ [i]) |>) ;;;
       (if negb (nd_inf nd) && (0 <? numo (n_c nd)) then
          v <- preempt_victim j i ;;
          match v with Some vi => fl <- gets fuel_of ;; preempt fl j vi i | None => ret tt end
        else ret tt)
     else ret tt) ;;;
    upd_ind i (fun y => y <| i_pcls := nc' |> <| i_pprio := i_prio y |>) ;;;
    decide_class_change j i.

  (* ---------- update_next_event_date ---------- *)
  Fixpoint scan_servers (l : list server) (best : option Z) (acc : list Z) : option Z * list Z :=
    match l with
    | [] => (best, acc)
    | sv :: r =>
      if date_lt (sv_next_end sv) best then scan_servers r (sv_next_end sv) (match sv_cust sv with Some c => [c] | None => [] end)
      else if date_eqb (sv_next_end sv) best && (match best with Some _ => true | None => false end)
           then scan_servers r best (acc ++ match sv_cust sv with Some c => [c] | None => [] end)
      else scan_servers r best acc
    end.
  Fixpoint scan_inds (t : Z) (q : list Z) (il : list ind) (best : option Z) (acc : list Z) : option Z * list Z :=
    match q with
    | [] => (best, acc)
    | i :: r =>
      match find_ind i il with
      | Some x =>
        match i_send x with
        | Some e =>
          if negb (i_blocked x) && (t <=? e) then
            if date_lt (Some e) best then scan_inds t r il (Some e) [i]
            else if date_eqb (Some e) best then scan_inds t r il best (acc ++ [i])
            else scan_inds t r il best acc
          else scan_inds t r il best acc
        | None => scan_inds t r il best acc
        end
      | None => scan_inds t r il best acc
      end
    end.
  Fixpoint scan_ren (q : list Z) (il : list ind) (best : option Z) (acc : list Z) : option (option Z * list Z) :=
    match q with
    | [] => Some (best, acc)
    | i :: r =>
      match find_ind i il with
      | None => None
      | Some x =>
        match i_ren x with
        | XU => None
        | XI => scan_ren r il best acc
        | XV z =>
          let waiting := match i_server x with None => true | Some _ => false end in
          if date_lt (Some z) best && waiting then scan_ren r il (Some z) [i]
          else if date_eqb (Some z) best && waiting then scan_ren r il best (acc ++ [i])
          else scan_ren r il best acc
        end
      end
    end.

  (* decide_next_event: candidates in the order slotted_service, shift_change, end_service, class_change, renege; strict < *)
  Fixpoint decide_next_event (cands : list (Z * (option Z * list Z))) (best : Z * (option Z * list Z)) : Z * (option Z * list Z) :=
    match cands with
    | [] => best
    | c :: r => if date_lt (fst (snd c)) (fst (snd best)) then decide_next_event r c else decide_next_event r best
    end.

  Definition update_next_event_date (j : Z) : M unit :=
    nd <- get_node j ;; nc <- ncfg_of j ;; t <- tnow ;; il <- gets inds ;;
    let inf := nd_inf nd in
    let es := if nc_slotted nc || inf then scan_inds t (all_individuals nd) il None [] else scan_servers (n_servers nd) None [] in
    rn <- (if negb inf && nc_reneging nc then lift E_Attr (scan_ren (all_individuals nd) il None []) else ret (None, [])) ;;
    let cc := if cf_dyn cf && negb inf then (n_nccd nd, match n_ncci nd with Some i => [i] | None => [] end) else (None, []) in
    let sh := match nc_srv nc with
              | SSched _ => [(1, (n_next_shift nd, []))]
              | SSlot sl => [(4, (Some (snd (slot_values sl (Z.to_nat (n_spos nd)))), []))]
              | SFixed => [] end in
    if nc_reneging nc || cf_dyn cf || nc_sched nc then
      let '(ty, (d, l)) := decide_next_event (sh ++ [(0, es); (3, cc); (2, rn)]) (5, (None, [])) in
      put_node (nd <| n_next_date := d |> <| n_next_inds := l |> <| n_next_type := ty |>)
    else
      put_node (nd <| n_next_date := fst es |> <| n_next_inds := snd es |> <| n_next_type := 0 |>).

  (* ---------- ArrivalNode ---------- *)
  Fixpoint find_min_row (j : Z) (c : Z) (row : list (option Z)) (best : option Z * Z * Z) : option Z * Z * Z :=
    match row with
    | [] => best
    | d :: r => find_min_row j (c + 1) r (if date_lt d (fst (fst best)) then (d, j, c) else best)
    end.
  Fixpoint find_min_dates (j : Z) (rows : list (list (option Z))) (best : option Z * Z * Z) : option Z * Z * Z :=
    match rows with
    | [] => best
    | row :: r => find_min_dates (j + 1) r (find_min_row j 0 row best)
    end.
  Definition find_next_event_date : M unit :=
    modify (fun s => let '(d, j, c) := find_min_dates 1 (a_dates (arr s)) (None, 0, 0) in
                     s <| arr := arr s <| a_next_node := j |> <| a_next_cls := c |> <| a_next_date := d |> |>).

  Definition sys_population : M Z := s <- gets (fun s => s) ;; ret ((a_created (arr s) - 1) - exit_n s).

  Definition route_of (i c : Z) : M (option (list (list Z))) :=
    rt <- lift E_Config (nthZ (cf_routing cf) c) ;;
    match rt with
    | RtNR _ => ret None
    | RtPB routes | RtFPB routes _ _ =>
      match routes with [] => fail E_Config | _ => r <- lift E_Config (nth_error routes (Z.to_nat (i mod Z.of_nat (length routes)))) ;; ret (Some r) end
    end.
  Definition new_ind (i c p : Z) (r : option (list (list Z))) : ind :=
    mkInd i c c c p p None None None None None None false None None None None 0 0 false XU XU None None None None r.

  Definition send_individual (j i : Z) : M unit :=
    modify (fun s => s <| arr := arr s <| a_accepted := a_accepted (arr s) + 1 |> |>) ;;;
    fl <- gets fuel_of ;; accept fl j i.
  Definition release_individual (j i : Z) : M unit :=
    x <- get_ind i ;;
    nd <- get_node j ;; nc <- ncfg_of j ;; sp <- sys_population ;;
    let full := (match nc_cap nc with None => false | Some cap => cap <=? n_pop nd end)
                || (match cf_syscap cf with None => false | Some sc => sc <=? sp end) in
    if full then write_br_record j i 4 ;;; exit_accept i false
    else
      tabs <- lift E_Config (nthZ (cf_baulk cf) (i_cls x)) ;;
      tab <- lift E_Config (nthZ tabs (j - 1)) ;;
      match tab with
      | None => send_individual j i
      | Some tb =>
        u <- draw_unif ;;
        let p4 := match nth_error tb (Z.to_nat (Z.min (n_pop nd) (Z.of_nat (length tb) - 1))) with Some p => p | None => 0 end in
        if 4 * u <? p4 * two53 then write_br_record j i 3 ;;; exit_accept i false
        else send_individual j i
      end.

  Fixpoint batch_loop (n : nat) (j c p : Z) : M unit :=
    match n with
    | O => ret tt
    | S m =>
      modify (fun s => s <| arr := arr s <| a_created := a_created (arr s) + 1 |> |>) ;;;
      i <- gets (fun s => a_created (arr s)) ;;
      (if (1 <=? j) then ret tt else fail E_NoNode) ;;;
      _ <- get_node j ;;
      r <- route_of i c ;;
      put_ind (new_ind i c p r) ;;;
      release_individual j i ;;;
      batch_loop m j c p
    end.

  Definition arrival_have_event : M unit :=
    a <- gets arr ;;
    let j := a_next_node a in let c := a_next_cls a in
    b <- draw_batch ;;
    (if b <? 0 then fail E_Batch else ret tt) ;;;
    p <- lift E_Config (nthZ (cf_prio cf) c) ;;
    batch_loop (Z.to_nat b) j c p ;;;
    ia <- draw_arr ;;
    a' <- gets arr ;;
    row <- lift E_Config (nthZ (a_dates a') (j - 1)) ;;
    old <- lift E_Config (nthZ row c) ;;
    modify (fun s => s <| arr := arr s <| a_dates := updZ (a_dates (arr s)) (j - 1) (updZ row c (match old with Some o => Some (o + ia) | None => None end)) |> |>) ;;;
    find_next_event_date.

  (* ---------- Simulation ---------- *)
  Fixpoint update_all (js : list Z) : M unit :=
    match js with [] => ret tt | j :: r => update_next_event_date j ;;; update_all r end.

  Fixpoint scan_active (k : Z) (ds : list (option Z)) (best : option Z) (acc : list Z) : option Z * list Z :=
    match ds with
    | [] => (best, acc)
    | d :: r =>
      if date_lt d best then scan_active (k + 1) r d [k]
      else if date_eqb d best then scan_active (k + 1) r best (acc ++ [k])
      else scan_active (k + 1) r best acc
    end.
  Definition find_next_active_node : M unit :=
    s <- gets (fun s => s) ;;
    let ds := a_next_date (arr s) :: map n_next_date (nodes s) in
    let '(d, cands) := scan_active 0 ds None [] in
    k <- (match cands with [] => fail E_Index | [a] => ret a | l => choice_uniform l end) ;;
    modify (fun s => s <| next_active := k |> <| now := match d with Some t => t | None => now s end |>).

  Definition node_have_event (j : Z) : M unit :=
    nd <- get_node j ;;
    let ty := n_next_type nd in
    if ty =? 0 then finish_service j
    else if ty =? 1 then change_shift j
    else if ty =? 2 then renege j
    else if ty =? 3 then change_customer_class_while_waiting j
    else if ty =? 4 then slotted_service j
    else ret tt.

  (* one executed event: have_event of the active node, every node recomputes its next date, the next node is chosen *)
  Definition event_step : M unit :=
    modify (fun s => s <| log := [] |>) ;;;
    k <- gets next_active ;;
    (if k =? 0 then arrival_have_event else node_have_event k) ;;;
    ns <- gets nodes ;;
    update_all (map n_id ns) ;;;
    find_next_active_node.

  (* ---------- Simulation.wrap_up_servers(T) at the end of a call ---------- *)
  Fixpoint wrap_servers (t : Z) (il : list ind) (l : list server) : option (list server) :=
    match l with
    | [] => Some []
    | sv :: r =>
      match wrap_servers t il r with
      | None => None
      | Some r' =>
        if sv_busy sv then
          match sv_cust sv with
          | Some c => match find_ind c il with
                      | Some x => let w := t - numo (i_sst x) in
                                  Some ((sv <| sv_total_time := Some (t - sv_start sv) |> <| sv_busy_time := sv_busy_time sv - sv_wrapped sv + w |> <| sv_wrapped := w |>) :: r')
                      | None => None end
          | None => None
          end
        else Some ((sv <| sv_total_time := Some (t - sv_start sv) |>) :: r')
      end
    end.
  Fixpoint wrap_nodes (t : Z) (il : list ind) (l : list node) : option (list node) :=
    match l with
    | [] => Some []
    | nd :: r => match (if nd_inf nd then Some (n_servers nd) else wrap_servers t il (n_servers nd)), wrap_nodes t il r with
                 | Some sv', Some r' => Some ((nd <| n_servers := sv' |>) :: r')
                 | _, _ => None end
    end.
  Definition wrap_up_servers (t : Z) : M unit :=
    fun s => match wrap_nodes t (inds s) (nodes s) with Some ns => Ok (tt, s <| nodes := ns |>) | None => Err E_NoServer end.
End Engine.

(* Engine.v -- the engine model, stage 1: a Gallina function for each Python method of simulation.py, arrival_node.py,
   node.py and exit_node.py that the scope of State.v reaches, with the same order of effects.  Places where Python can
   raise are Err; the only unbounded recursion (release -> release_blocked_individual -> release) is on fuel. *)
From Coq Require Import ZArith List Bool Lia.
From RecordUpdate Require Import RecordUpdate.
From CiwV Require Import Sx Prelude Routing.
From CiwV.Engine Require Import State.
Import ListNotations.
Open Scope Z_scope.

Definition M (A : Type) := sim -> res (A * sim).
Definition ret {A} (a : A) : M A := fun s => Ok (a, s).
Definition bind {A B} (m : M A) (f : A -> M B) : M B :=
  fun s => match m s with Ok (a, s') => f a s' | Err e => Err e | OutOfFuel => OutOfFuel end.
Notation "x <- m ;; f" := (bind m (fun x => f)) (at level 61, m at next level, right associativity).
Notation "m ;;; f" := (bind m (fun _ => f)) (at level 61, right associativity).
Definition fail {A} (e : Z) : M A := fun _ => Err e.
Definition gets {A} (f : sim -> A) : M A := fun s => Ok (f s, s).
Definition modify (f : sim -> sim) : M unit := fun s => Ok (tt, f s).
Definition lift {A} (e : Z) (o : option A) : M A := match o with Some a => ret a | None => fail e end.

Definition nthZ {A} (l : list A) (i : Z) : option A := if i <? 0 then None else nth_error l (Z.to_nat i).
Fixpoint upd {A} (l : list A) (n : nat) (x : A) : list A :=
  match l, n with [], _ => [] | _ :: t, O => x :: t | h :: t, S k => h :: upd t k x end.
Definition updZ {A} (l : list A) (i : Z) (x : A) : list A := if i <? 0 then l else upd l (Z.to_nat i) x.

Section Engine.
  Variable cf : config.

  (* ---------- access ---------- *)
  Definition get_node (j : Z) : M node := fun s => match nthZ (nodes s) (j - 1) with Some nd => Ok (nd, s) | None => Err E_NoNode end.
  Definition put_node (nd : node) : M unit := modify (fun s => s <| nodes := updZ (nodes s) (n_id nd - 1) nd |>).
  Definition ncfg_of (j : Z) : M ncfg := lift E_Config (nthZ (cf_nodes cf) (j - 1)).

  Fixpoint find_ind (i : Z) (l : list ind) : option ind :=
    match l with [] => None | x :: r => if i_id x =? i then Some x else find_ind i r end.
  Fixpoint put_ind_l (x : ind) (l : list ind) : list ind :=
    match l with [] => [x] | y :: r => if i_id y =? i_id x then x :: r else y :: put_ind_l x r end.
  Fixpoint del_ind_l (i : Z) (l : list ind) : list ind :=
    match l with [] => [] | y :: r => if i_id y =? i then r else y :: del_ind_l i r end.
  Definition get_ind (i : Z) : M ind := fun s => match find_ind i (inds s) with Some x => Ok (x, s) | None => Err E_NoInd end.
  Definition put_ind (x : ind) : M unit := modify (fun s => s <| inds := put_ind_l x (inds s) |>).
  Definition del_ind (i : Z) : M unit := modify (fun s => s <| inds := del_ind_l i (inds s) |>).

  (* ---------- the oracle ---------- *)
  Definition draw_arr : M Z := fun s => match d_arr (dr s) with x :: r => Ok (x, s <| dr := dr s <| d_arr := r |> |>) | [] => Err E_Draw end.
  Definition draw_batch : M Z := fun s => match d_batch (dr s) with x :: r => Ok (x, s <| dr := dr s <| d_batch := r |> |>) | [] => Err E_Draw end.
  Definition draw_svc : M Z := fun s => match d_svc (dr s) with x :: r => Ok (x, s <| dr := dr s <| d_svc := r |> |>) | [] => Err E_Draw end.
  Definition draw_unif : M Z := fun s => match d_unif (dr s) with x :: r => Ok (x, s <| dr := dr s <| d_unif := r |> |>) | [] => Err E_Draw end.

  (* auxiliary.random_choice without weights: int(u * len) *)
  Definition choice_uniform {A} (l : list A) : M A :=
    u <- draw_unif ;; lift E_Choice (nth_error l (rc_uniform (length l) u)).
  (* auxiliary.random_choice with weights in units of 1/den: draws only when the shortcut does not apply *)
  Definition choice_weighted (den : Z) (P : list Z) : M nat :=
    match P with
    | [] => fail E_Choice
    | p0 :: rest =>
      if (negb (Nat.eqb (length rest) 0)) && all_zero (removelast P) && (last P 0 =? den) then ret (length rest)
      else u <- draw_unif ;; match rc_loop den u p0 rest 0 with Some i => ret i | None => fail E_Choice end
    end.

  Definition log_rec (r : rec) : M unit := modify (fun s => s <| log := log s ++ [r] |>).

  (* ---------- ExitNode.accept ---------- *)
  Definition exit_accept (x : ind) (completed : bool) : M unit :=
    del_ind (i_id x) ;;;
    modify (fun s => s <| exit_ids := exit_ids s ++ [i_id x] |> <| exit_n := exit_n s + 1 |>
                       <| exit_completed := exit_completed s + (if completed then 1 else 0) |>).

  (* ---------- Node ---------- *)
  Definition all_individuals (nd : node) : list Z := concat (n_queues nd).

  (* choose_next_customer: first priority class with a waiting customer (one without server), then the discipline *)
  Fixpoint waiting_of (q : list Z) (il : list ind) : list Z :=
    match q with
    | [] => []
    | i :: r => match find_ind i il with
                | Some x => match i_server x with None => i :: waiting_of r il | Some _ => waiting_of r il end
                | None => waiting_of r il
                end
    end.
  Fixpoint first_waiting (qs : list (list Z)) (il : list ind) : list Z :=
    match qs with [] => [] | q :: r => match waiting_of q il with [] => first_waiting r il | w => w end end.
  Definition choose_next_customer (nd : node) : M (option Z) :=
    il <- gets inds ;;
    match first_waiting (n_queues nd) il with
    | [] => ret None
    | w0 :: wr =>
      nc <- ncfg_of (n_id nd) ;;
      if nc_disc nc =? 0 then ret (Some w0)
      else if nc_disc nc =? 1 then ret (Some (last wr w0))
      else x <- choice_uniform (w0 :: wr) ;; ret (Some x)
    end.

  Fixpoint find_free_server (l : list server) : option server :=
    match l with [] => None | sv :: r => if sv_busy sv then find_free_server r else Some sv end.
  Fixpoint put_server_l (sv : server) (l : list server) : list server :=
    match l with [] => [] | y :: r => if sv_id y =? sv_id sv then sv :: r else y :: put_server_l sv r end.
  Fixpoint find_server (i : Z) (l : list server) : option server :=
    match l with [] => None | y :: r => if sv_id y =? i then Some y else find_server i r end.

  Definition is_inf (j : Z) : M bool := nc <- ncfg_of j ;; ret (match nc_c nc with None => true | Some _ => false end).

  (* the service-start block shared by accept / release: attach the server (finite c), dates, counter, server end date *)
  Definition start_service (j : Z) (i : Z) (srv : option server) : M unit :=
    t <- gets now ;;
    x <- get_ind i ;;
    st <- draw_svc ;;
    let x' := x <| i_sst := Some t |> <| i_stime := Some st |> <| i_send := Some (t + st) |>
                <| i_server := match srv with Some sv => Some (sv_id sv) | None => i_server x end |> in
    put_ind x' ;;;
    nd <- get_node j ;;
    let servers' := match srv with
                    | Some sv => put_server_l (sv <| sv_cust := Some i |> <| sv_busy := true |> <| sv_next_end := Some (t + st) |>) (n_servers nd)
                    | None => n_servers nd end in
    put_node (nd <| n_insvc := n_insvc nd + 1 |> <| n_servers := servers' |>).

  Definition begin_service_if_possible_accept (j : Z) (i : Z) : M unit :=
    t <- gets now ;;
    x <- get_ind i ;;
    put_ind (x <| i_arr := Some t |>) ;;;
    inf <- is_inf j ;;
    nd <- get_node j ;;
    cand <- (if inf then ret (Some i) else choose_next_customer nd) ;;
    match cand with
    | None => ret tt
    | Some c =>
      if inf then start_service j c None
      else match find_free_server (n_servers nd) with
           | Some sv => start_service j c (Some sv)
           | None => ret tt
           end
    end.

  Definition accept (j : Z) (x : ind) : M unit :=
    nd <- get_node j ;;
    let x' := x <| i_node := Some j |> <| i_exit := None |> <| i_blocked := false |> <| i_ocls := i_cls x |> <| i_pcls := i_cls x |>
                <| i_pprio := i_prio x |> <| i_qa := Some (n_pop nd) |> in
    put_ind x' ;;;
    qs <- lift E_Remove (match nthZ (n_queues nd) (i_prio x) with Some q => Some (updZ (n_queues nd) (i_prio x) (q ++ [i_id x])) | None => None end) ;;
    put_node (nd <| n_queues := qs |> <| n_pop := n_pop nd + 1 |>) ;;;
    begin_service_if_possible_accept j (i_id x).

  Definition opt_sub (a b : option Z) : option Z := match a, b with Some x, Some y => Some (x - y) | _, _ => None end.

  Definition write_individual_record (j : Z) (x : ind) : M unit :=
    inf <- is_inf j ;;
    log_rec (mkRec (i_id x) (i_pcls x) (i_ocls x) j 0 (i_arr x) (opt_sub (i_sst x) (i_arr x)) (i_sst x) (opt_sub (i_send x) (i_sst x))
                   (i_send x) (opt_sub (i_exit x) (i_send x)) (i_exit x) (i_dest x) (i_qa x) (i_qd x) (if inf then None else i_server x)) ;;;
    put_ind (x <| i_nrec := i_nrec x + 1 |>).

  Definition write_br_record (j : Z) (x : ind) (ty : Z) : M unit :=
    t <- gets now ;; nd <- get_node j ;;
    log_rec (mkRec (i_id x) (i_pcls x) (i_ocls x) j ty (Some t) None None None None None (Some t) None (Some (n_pop nd)) None None).

  Fixpoint remove_first (i : Z) (l : list Z) : option (list Z) :=
    match l with [] => None | h :: t => if h =? i then Some t else option_map (cons h) (remove_first i t) end.

  Definition begin_service_if_possible_release (j : Z) (freed : option Z) : M unit :=
    match freed with
    | None => ret tt
    | Some sid =>
      nd <- get_node j ;;
      match find_server sid (n_servers nd) with
      | None => ret tt
      | Some sv =>
        cand <- choose_next_customer nd ;;
        match cand with None => ret tt | Some c => start_service j c (Some sv) end
      end
    end.

  (* release and the unblocking cascade: release j i d = Node j releases customer i towards d (0 = exit) *)
  Fixpoint release (fuel : nat) (j : Z) (i : Z) (d : Z) : M unit :=
    match fuel with
    | O => fun _ => OutOfFuel
    | S f =>
      t <- gets now ;;
      x <- get_ind i ;;
      nd <- get_node j ;;
      q <- lift E_Remove (nthZ (n_queues nd) (i_pprio x)) ;;
      q' <- lift E_Remove (remove_first i q) ;;
      let nd1 := nd <| n_queues := updZ (n_queues nd) (i_pprio x) q' |> <| n_pop := n_pop nd - 1 |> <| n_insvc := n_insvc nd - 1 |> in
      put_node nd1 ;;;
      let x1 := x <| i_qd := Some (n_pop nd1) |> <| i_exit := Some t |> in
      put_ind x1 ;;;
      write_individual_record j x1 ;;;
      inf <- is_inf j ;;
      freed <- (if inf then ret None
                else sid <- lift E_NoServer (i_server x1) ;;
                     nd2 <- get_node j ;;
                     sv <- lift E_NoServer (find_server sid (n_servers nd2)) ;;
                     sstart <- lift E_NoServer (i_sst x1) ;;
                     put_node (nd2 <| n_servers := put_server_l (sv <| sv_cust := None |> <| sv_busy := false |>
                                                                    <| sv_busy_time := sv_busy_time sv - sv_wrapped sv + (t - sstart) |> <| sv_wrapped := 0 |> <| sv_total_time := Some t |>) (n_servers nd2) |>) ;;;
                     ret (Some sid)) ;;
      x2 <- get_ind i ;;
      let x3 := x2 <| i_server := (if inf then i_server x2 else None) |> <| i_arr := None |> <| i_stime := None |> <| i_sst := None |> <| i_send := None |>
                   <| i_exit := None |> <| i_qa := None |> <| i_qd := None |> <| i_dest := None |> in
      put_ind x3 ;;;
      begin_service_if_possible_release j freed ;;;
      (if d =? 0 then exit_accept x3 true else accept d x3) ;;;
      (* release_blocked_individual of node j *)
      nd3 <- get_node j ;;
      nc <- ncfg_of j ;;
      if (0 <? n_lenbq nd3) && (match nc_cap nc with None => true | Some cap => n_pop nd3 <? cap end) then
        match n_bq nd3 with
        | [] => fail E_Index
        | (from, y) :: rest =>
          fnd <- get_node from ;;
          (if memZ y (all_individuals fnd) then ret tt else fail E_Index) ;;;
          put_node (nd3 <| n_bq := rest |> <| n_lenbq := n_lenbq nd3 - 1 |>) ;;;
          release f from y j
        end
      else ret tt
    end.

  Definition block_individual (j : Z) (i : Z) (d : Z) : M unit :=
    x <- get_ind i ;; put_ind (x <| i_blocked := true |>) ;;;
    dn <- get_node d ;;
    put_node (dn <| n_bq := n_bq dn ++ [(j, i)] |> <| n_lenbq := n_lenbq dn + 1 |>).

  Definition fuel_of (s : sim) : nat := S (length (concat (map (fun nd => n_bq nd) (nodes s)))).

  Definition finish_service (j : Z) : M unit :=
    nd <- get_node j ;;
    i <- (match n_next_inds nd with
          | [] => fail E_NoInd
          | [a] => ret a
          | l => choice_uniform l
          end) ;;
    x <- get_ind i ;;
    nc <- ncfg_of j ;;
    (* change_customer_class *)
    x1 <- (match nc_ccm nc with
           | None => ret x
           | Some m =>
             row <- lift E_Config (nthZ m (i_cls x)) ;;
             k <- choice_weighted 8 row ;;
             let c' := Z.of_nat k in
             p' <- lift E_Config (nthZ (cf_prio cf) c') ;;
             ret (x <| i_pcls := i_cls x |> <| i_cls := c' |> <| i_pprio := i_prio x |> <| i_prio := p' |>)
           end) ;;
    (* next_node: transition matrix row of the (new) class at this node, remainder = exit *)
    rows <- lift E_Config (nthZ (cf_tm cf) (i_cls x1)) ;;
    row <- lift E_Config (nthZ rows (j - 1)) ;;
    k <- choice_weighted 8 (row ++ [8 - zsum row]) ;;
    let d := if Nat.ltb k (length row) then Z.of_nat k + 1 else 0 in
    let x2 := x1 <| i_dest := Some (if d =? 0 then -1 else d) |> in
    put_ind x2 ;;;
    inf <- is_inf j ;;
    (if inf then ret tt
     else sid <- lift E_NoServer (i_server x2) ;;
          nd1 <- get_node j ;;
          sv <- lift E_NoServer (find_server sid (n_servers nd1)) ;;
          put_node (nd1 <| n_servers := put_server_l (sv <| sv_next_end := None |>) (n_servers nd1) |>)) ;;;
    space <- (if d =? 0 then ret true
              else dn <- get_node d ;; dc <- ncfg_of d ;;
                   ret (match nc_cap dc with None => true | Some cap => n_pop dn <? cap end)) ;;
    if space then (fl <- gets fuel_of ;; release fl j i d) else block_individual j i d.

  (* ---------- update_next_event_date ---------- *)
  Definition date_lt (a b : option Z) : bool := match a, b with Some x, Some y => x <? y | Some _, None => true | None, _ => false end.
  Definition date_eqb (a b : option Z) : bool := match a, b with Some x, Some y => x =? y | None, None => true | _, _ => false end.

  Fixpoint scan_servers (l : list server) (best : option Z) (acc : list Z) : option Z * list Z :=
    match l with
    | [] => (best, acc)
    | sv :: r =>
      if date_lt (sv_next_end sv) best then scan_servers r (sv_next_end sv) (match sv_cust sv with Some c => [c] | None => [] end)
      else if date_eqb (sv_next_end sv) best && (match best with Some _ => true | None => false end)
           then scan_servers r best (acc ++ match sv_cust sv with Some c => [c] | None => [] end)
      else scan_servers r best acc
    end.
  Fixpoint scan_inds (t : Z) (q : list Z) (il : list ind) (best : option Z) (acc : list Z) : option Z * list Z :=
    match q with
    | [] => (best, acc)
    | i :: r =>
      match find_ind i il with
      | Some x =>
        match i_send x with
        | Some e =>
          if negb (i_blocked x) && (t <=? e) then
            if date_lt (Some e) best then scan_inds t r il (Some e) [i]
            else if date_eqb (Some e) best then scan_inds t r il best (acc ++ [i])
            else scan_inds t r il best acc
          else scan_inds t r il best acc
        | None => scan_inds t r il best acc
        end
      | None => scan_inds t r il best acc
      end
    end.
  Definition update_next_event_date (j : Z) : M unit :=
    nd <- get_node j ;; inf <- is_inf j ;; t <- gets now ;; il <- gets inds ;;
    let '(d, l) := if inf then scan_inds t (all_individuals nd) il None [] else scan_servers (n_servers nd) None [] in
    put_node (nd <| n_next_date := d |> <| n_next_inds := l |>).

  (* ---------- ArrivalNode ---------- *)
  Fixpoint find_min_row (j : Z) (c : Z) (row : list (option Z)) (best : option Z * Z * Z) : option Z * Z * Z :=
    match row with
    | [] => best
    | d :: r => find_min_row j (c + 1) r (if date_lt d (fst (fst best)) then (d, j, c) else best)
    end.
  Fixpoint find_min_dates (j : Z) (rows : list (list (option Z))) (best : option Z * Z * Z) : option Z * Z * Z :=
    match rows with
    | [] => best
    | row :: r => find_min_dates (j + 1) r (find_min_row j 0 row best)
    end.
  Definition find_next_event_date : M unit :=
    modify (fun s => let '(d, j, c) := find_min_dates 1 (a_dates (arr s)) (None, 0, 0) in
                     s <| arr := arr s <| a_next_node := j |> <| a_next_cls := c |> <| a_next_date := d |> |>).

  Definition sys_population : M Z := s <- gets (fun s => s) ;; ret ((a_created (arr s) - 1) - exit_n s).

  Definition new_ind (i c p : Z) : ind := mkInd i c c c p p None None None None None None false None None None None 0.

  Definition release_individual (j : Z) (x : ind) : M unit :=
    nd <- get_node j ;; nc <- ncfg_of j ;; sp <- sys_population ;;
    put_ind x ;;;
    let full := (match nc_cap nc with None => false | Some cap => cap <=? n_pop nd end)
                || (match cf_syscap cf with None => false | Some sc => sc <=? sp end) in
    if full then write_br_record j x 4 ;;; exit_accept x false
    else
      tabs <- lift E_Config (nthZ (cf_baulk cf) (i_cls x)) ;;
      tab <- lift E_Config (nthZ tabs (j - 1)) ;;
      match tab with
      | None => modify (fun s => s <| arr := arr s <| a_accepted := a_accepted (arr s) + 1 |> |>) ;;; accept j x
      | Some tb =>
        u <- draw_unif ;;
        let p4 := match nth_error tb (Z.to_nat (Z.min (n_pop nd) (Z.of_nat (length tb) - 1))) with Some p => p | None => 0 end in
        if 4 * u <? p4 * two53 then write_br_record j x 3 ;;; exit_accept x false
        else modify (fun s => s <| arr := arr s <| a_accepted := a_accepted (arr s) + 1 |> |>) ;;; accept j x
      end.

  Fixpoint batch_loop (n : nat) (j c p : Z) : M unit :=
    match n with
    | O => ret tt
    | S m =>
      modify (fun s => s <| arr := arr s <| a_created := a_created (arr s) + 1 |> |>) ;;;
      i <- gets (fun s => a_created (arr s)) ;;
      release_individual j (new_ind i c p) ;;;
      batch_loop m j c p
    end.

  Definition arrival_have_event : M unit :=
    a <- gets arr ;;
    let j := a_next_node a in let c := a_next_cls a in
    b <- draw_batch ;;
    (if b <? 0 then fail E_Batch else ret tt) ;;;
    p <- lift E_Config (nthZ (cf_prio cf) c) ;;
    batch_loop (Z.to_nat b) j c p ;;;
    ia <- draw_arr ;;
    a' <- gets arr ;;
    row <- lift E_Config (nthZ (a_dates a') (j - 1)) ;;
    old <- lift E_Config (nthZ row c) ;;
    modify (fun s => s <| arr := arr s <| a_dates := updZ (a_dates (arr s)) (j - 1) (updZ row c (match old with Some o => Some (o + ia) | None => None end)) |> |>) ;;;
    find_next_event_date.

  (* ---------- Simulation ---------- *)
  Fixpoint update_all (js : list Z) : M unit :=
    match js with [] => ret tt | j :: r => update_next_event_date j ;;; update_all r end.

  Fixpoint scan_active (k : Z) (ds : list (option Z)) (best : option Z) (acc : list Z) (first : bool) : option Z * list Z :=
    match ds with
    | [] => (best, acc)
    | d :: r =>
      if date_lt d best then scan_active (k + 1) r d [k] false
      else if date_eqb d best then scan_active (k + 1) r best (acc ++ [k]) false
      else scan_active (k + 1) r best acc false
    end.
  Definition find_next_active_node : M unit :=
    s <- gets (fun s => s) ;;
    let ds := a_next_date (arr s) :: map n_next_date (nodes s) in
    let '(d, cands) := scan_active 0 ds None [] true in
    k <- (match cands with [] => fail E_Index | [a] => ret a | l => choice_uniform l end) ;;
    (* the clock moves to the chosen event's date; when every date is infinite the model keeps the clock (the loop would stop) *)
    modify (fun s => s <| next_active := k |> <| now := match d with Some t => t | None => now s end |>).

  (* one executed event: have_event of the active node, every node recomputes its next date, the next node is chosen *)
  Definition event_step : M unit :=
    modify (fun s => s <| log := [] |>) ;;;
    k <- gets next_active ;;
    (if k =? 0 then arrival_have_event else finish_service k) ;;;
    ns <- gets nodes ;;
    update_all (map n_id ns) ;;;
    find_next_active_node.

  (* ---------- Simulation.wrap_up_servers(T) at the end of a call (finite-server nodes) ---------- *)
  Fixpoint wrap_servers (t : Z) (il : list ind) (l : list server) : option (list server) :=
    match l with
    | [] => Some []
    | sv :: r =>
      match wrap_servers t il r with
      | None => None
      | Some r' =>
        if sv_busy sv then
          match sv_cust sv with
          | Some c => match find_ind c il with
                      | Some x => match i_sst x with
                                  | Some st => Some ((sv <| sv_total_time := Some t |> <| sv_busy_time := sv_busy_time sv - sv_wrapped sv + (t - st) |> <| sv_wrapped := t - st |>) :: r')
                                  | None => None end
                      | None => None end
          | None => None
          end
        else Some ((sv <| sv_total_time := Some t |>) :: r')
      end
    end.
  Fixpoint wrap_nodes (t : Z) (il : list ind) (l : list node) : option (list node) :=
    match l with
    | [] => Some []
    | nd :: r => match wrap_servers t il (n_servers nd), wrap_nodes t il r with
                 | Some sv', Some r' => Some ((nd <| n_servers := sv' |>) :: r')
                 | _, _ => None end
    end.
  Definition wrap_up_servers (t : Z) : M unit :=
    fun s => match wrap_nodes t (inds s) (nodes s) with Some ns => Ok (tt, s <| nodes := ns |>) | None => Err E_NoServer end.
End Engine.

(* Trace.v -- generic scanning of a trace of frames with a local step check,
   and the lemma that turns "the scan found nothing" into a chain of accepted
   consecutive pairs (used by every T1 proof). *)
From Coq Require Import ZArith List Bool Lia.
From CiwV Require Import Sx.
Import ListNotations.
Open Scope Z_scope.

Section Scan.
  Context {F : Type}.
  (* [chk k prev cur] = None when frame number k (cur) is acceptable after prev,
     otherwise Some (clause, info). *)
  Variable chk : Z -> F -> F -> option (Z * list Z).

  Fixpoint scan (k : Z) (prev : F) (fs : list F) : option (Z * Z * list Z) :=
    match fs with
    | [] => None
    | f :: r =>
      match chk k prev f with
      | Some (c, info) => Some (k, c, info)
      | None => scan (k + 1) f r
      end
    end.

  (* consecutive pairs of  prev :: fs  with their indices *)
  Inductive chain : Z -> F -> list F -> Prop :=
  | chain_nil k p : chain k p []
  | chain_cons k p f r : chk k p f = None -> chain (k + 1) f r -> chain k p (f :: r).

  Lemma scan_none_chain : forall fs k p, scan k p fs = None -> chain k p fs.
  Proof.
    induction fs as [|f r IH]; intros k p H; [constructor|].
    cbn [scan] in H. destruct (chk k p f) as [[c i]|] eqn:E; [discriminate|].
    constructor; auto.
  Qed.

  Lemma chain_scan_none : forall fs k p, chain k p fs -> scan k p fs = None.
  Proof.
    induction fs as [|f r IH]; intros k p H; [reflexivity|].
    inversion H; subst. cbn [scan]. rewrite H4. auto.
  Qed.

  (* An invariant established for the first frame and propagated by accepted
     steps holds for every frame of the trace. *)
  Lemma chain_invariant (I : F -> Prop) :
    (forall k p f, chk k p f = None -> I p -> I f) ->
    forall fs k p, chain k p fs -> I p -> Forall I fs.
  Proof.
    intros Hstep. induction fs as [|f r IH]; intros k p H Hp; [constructor|].
    inversion H; subst. constructor; eauto.
  Qed.

  (* A transitive, reflexive relation implied by accepted steps relates every
     earlier frame to every later one. *)
  Lemma chain_rel (R : F -> F -> Prop) :
    (forall x, R x x) -> (forall x y z, R x y -> R y z -> R x z) ->
    (forall k p f, chk k p f = None -> R p f) ->
    forall fs k p, chain k p fs ->
    forall i j, (i <= j)%nat -> forall a b,
      nth_error (p :: fs) i = Some a -> nth_error (p :: fs) j = Some b -> R a b.
  Proof.
    intros Hr Ht Hs. induction fs as [|f r IH]; intros k p H i j Hij a b Ha Hb.
    - destruct i as [|i]; [|destruct i; discriminate].
      destruct j as [|j]; [|destruct j; discriminate].
      cbn in Ha, Hb. injection Ha as <-. injection Hb as <-. apply Hr.
    - inversion H; subst.
      destruct i as [|i].
      + cbn in Ha. injection Ha as <-.
        destruct j as [|j]; [cbn in Hb; injection Hb as <-; apply Hr|].
        apply Ht with f; [eauto|].
        apply (IH _ _ H5 0%nat j); [lia|reflexivity|exact Hb].
      + destruct j as [|j]; [lia|].
        apply (IH _ _ H5 i j); [lia|exact Ha|exact Hb].
  Qed.

  (* the same with an invariant available to the step lemma *)
  Lemma chain_rel_inv (I : F -> Prop) (R : F -> F -> Prop) :
    (forall x, R x x) -> (forall x y z, R x y -> R y z -> R x z) ->
    (forall k p f, chk k p f = None -> I p -> I f) ->
    (forall k p f, chk k p f = None -> I p -> R p f) ->
    forall fs k p, chain k p fs -> I p ->
    forall i j, (i <= j)%nat -> forall a b,
      nth_error (p :: fs) i = Some a -> nth_error (p :: fs) j = Some b -> R a b.
  Proof.
    intros Hr Ht Hi Hs. induction fs as [|f r IH]; intros k p H Hp i j Hij a b Ha Hb.
    - destruct i as [|i]; [|destruct i; discriminate].
      destruct j as [|j]; [|destruct j; discriminate].
      cbn in Ha, Hb. injection Ha as <-. injection Hb as <-. apply Hr.
    - inversion H as [|? ? ? ? Hc Hch]; subst.
      destruct i as [|i].
      + cbn in Ha. injection Ha as <-.
        destruct j as [|j]; [cbn in Hb; injection Hb as <-; apply Hr|].
        apply Ht with f; [eauto|].
        apply (IH _ _ Hch (Hi _ _ _ Hc Hp) 0%nat j); [lia|reflexivity|exact Hb].
      + destruct j as [|j]; [lia|].
        apply (IH _ _ Hch (Hi _ _ _ Hc Hp) i j); [lia|exact Ha|exact Hb].
  Qed.

  (* consecutive frames of an accepted chain *)
  Lemma chain_consecutive : forall fs k p, chain k p fs ->
    forall i a b, nth_error (p :: fs) i = Some a -> nth_error (p :: fs) (S i) = Some b ->
    exists k', chk k' a b = None.
  Proof.
    induction fs as [|f r IH]; intros k p H i a b Ha Hb.
    - destruct i; cbn in Hb; [discriminate|destruct i; discriminate].
    - inversion H as [|? ? ? ? Hc Hch]; subst. destruct i as [|i].
      + cbn in Ha, Hb. injection Ha as <-. injection Hb as <-. eauto.
      + eapply IH; eauto.
  Qed.
End Scan.

(* first failing check in a list of (clause, test) pairs *)
Fixpoint first_fail (l : list (Z * bool)) : option Z :=
  match l with
  | [] => None
  | (c, b) :: r => if b then first_fail r else Some c
  end.

Lemma first_fail_none : forall l, first_fail l = None -> forall c b, In (c, b) l -> b = true.
Proof.
  induction l as [|[c0 b0] r IH]; intros H c b Hin; [destruct Hin|].
  cbn in H. destruct b0; [|discriminate].
  destruct Hin as [E|Hin]; [congruence|eauto].
Qed.

(* Sx.v -- the wire format shared by the Python observer, the OCaml driver and
   the Gallina acceptors/models: trees of integers.  Everything that interprets
   a trace is written in Gallina on top of this type, so the OCaml glue only
   parses parentheses and decimal digits. *)
From Coq Require Import ZArith List Bool.
Import ListNotations.
Open Scope Z_scope.

Inductive sx : Type := A (z : Z) | L (l : list sx).

(* Result of running an acceptor / a model comparison on one case. *)
Inductive verdict : Type :=
| Accept (stats : list Z)                       (* case accepted; counters for the evidence *)
| Reject (frame clause : Z) (info : list Z)      (* frame index, failing clause, context      *)
| BadInput (code : Z).                           (* the case could not be decoded             *)

Definition is_accept (v : verdict) : bool :=
  match v with Accept _ => true | _ => false end.

(* option monad *)
Definition obind {X Y} (o : option X) (f : X -> option Y) : option Y :=
  match o with Some x => f x | None => None end.
Notation "'do' x <- o ; k" := (obind o (fun x => k))
  (at level 200, x pattern, o at level 100, k at level 200, right associativity).

Fixpoint omap {X Y} (f : X -> option Y) (l : list X) : option (list Y) :=
  match l with
  | [] => Some []
  | x :: r => do y <- f x; do ys <- omap f r; Some (y :: ys)
  end.

Definition getZ (s : sx) : option Z := match s with A z => Some z | L _ => None end.
Definition getL (s : sx) : option (list sx) := match s with L l => Some l | A _ => None end.
Definition getZs (s : sx) : option (list Z) := do l <- getL s; omap getZ l.
Definition getZss (s : sx) : option (list (list Z)) := do l <- getL s; omap getZs l.

(* extended numbers as the observer prints them:
     A z      a number            L []      False / None / unset
     L [A 0]  +infinity           L [A 1]   nan            L [A 2]  True  *)
Inductive xnum : Type := XNum (z : Z) | XNone | XInf | XNan | XTrue.

Definition getX (s : sx) : option xnum :=
  match s with
  | A z => Some (XNum z)
  | L [] => Some XNone
  | L [A 0] => Some XInf
  | L [A 1] => Some XNan
  | L [A 2] => Some XTrue
  | _ => None
  end.
Definition getXs (s : sx) : option (list xnum) := do l <- getL s; omap getX l.

Definition getBool (s : sx) : option bool :=
  match s with
  | A 0 => Some false | A 1 => Some true
  | L [] => Some false | L [A 2] => Some true
  | _ => None
  end.

Definition xnum_eqb (a b : xnum) : bool :=
  match a, b with
  | XNum x, XNum y => x =? y
  | XNone, XNone | XInf, XInf | XNan, XNan | XTrue, XTrue => true
  | _, _ => false
  end.

(* "date <= date" on extended numbers where only XNum and XInf are dates *)
Definition xle (a b : xnum) : bool :=
  match a, b with
  | XNum x, XNum y => x <=? y
  | XNum _, XInf => true
  | XInf, XInf => true
  | _, _ => false
  end.
Definition xlt (a b : xnum) : bool :=
  match a, b with
  | XNum x, XNum y => x <? y
  | XNum _, XInf => true
  | _, _ => false
  end.

Fixpoint nth_sx (n : nat) (l : list sx) : option sx :=
  match n, l with
  | O, x :: _ => Some x
  | S k, _ :: r => nth_sx k r
  | _, [] => None
  end.

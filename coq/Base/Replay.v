(* Replay.v -- generic event-list acceptors: a state machine [step] that either moves on or
   fails with a clause number, its run over a list, and the lemmas every T1 proof needs:
   an accepted list can be split anywhere into a prefix that runs to some state and a next
   event on which [step] succeeds; and an invariant relating the state to the prefix that is
   established initially and preserved by successful steps holds at every split point. *)
From Coq Require Import ZArith List Bool Lia.
Import ListNotations.
Open Scope Z_scope.

Section Replay.
  Context {S E : Type}.
  Variable step : S -> E -> S + Z.

  Fixpoint replay (m : S) (i : Z) (es : list E) : option (Z * Z) :=
    match es with
    | [] => None
    | e :: r => match step m e with inl m' => replay m' (i + 1) r | inr c => Some (i, c) end
    end.

  Fixpoint state_after (m : S) (es : list E) : option S :=
    match es with
    | [] => Some m
    | e :: r => match step m e with inl m' => state_after m' r | inr _ => None end
    end.

  Lemma state_after_app m a b :
    state_after m (a ++ b) = match state_after m a with Some m' => state_after m' b | None => None end.
  Proof.
    revert m; induction a as [|e a IH]; intros m; cbn; [reflexivity|].
    destruct (step m e); [apply IH|reflexivity].
  Qed.

  Lemma replay_none_state : forall es m i, replay m i es = None -> exists mf, state_after m es = Some mf.
  Proof.
    induction es as [|e r IH]; intros m i H; cbn in *; [eauto|].
    destruct (step m e); [eauto|discriminate].
  Qed.

  Lemma replay_split : forall es m i, replay m i es = None ->
    forall pre e post, es = pre ++ e :: post ->
    exists mp m', state_after m pre = Some mp /\ step mp e = inl m'.
  Proof.
    induction es as [|e0 r IH]; intros m i H pre e post E0; [destruct pre; discriminate|].
    cbn [replay] in H. destruct (step m e0) as [m1|c] eqn:Es; [|discriminate].
    destruct pre as [|p0 pre1]; cbn in E0.
    - injection E0 as -> ->. exists m, m1. split; [reflexivity|exact Es].
    - injection E0 as -> ->. destruct (IH _ _ H pre1 e post eq_refl) as (mp & m' & A & B).
      exists mp, m'. split; [cbn; rewrite Es; exact A|exact B].
  Qed.

  (* invariant between the prefix consumed so far and the state *)
  Lemma state_after_inv (I : list E -> S -> Prop) m0 :
    I [] m0 ->
    (forall pre m e m', I pre m -> step m e = inl m' -> I (pre ++ [e]) m') ->
    forall es mf, state_after m0 es = Some mf -> I es mf.
  Proof.
    intros H0 Hstep.
    assert (G : forall es pre m mf, I pre m -> state_after m es = Some mf -> I (pre ++ es) mf).
    { induction es as [|e r IH]; intros pre m mf Hi H; cbn in H.
      - injection H as <-. rewrite app_nil_r. exact Hi.
      - destruct (step m e) as [m1|] eqn:Es; [|discriminate].
        replace (pre ++ e :: r) with ((pre ++ [e]) ++ r) by (rewrite <- app_assoc; reflexivity).
        eapply IH; [|exact H]. eapply Hstep; eauto. }
    intros es mf H. apply (G es [] m0 mf H0 H).
  Qed.

  (* the combination used by the T1 proofs *)
  Lemma replay_sound (I : list E -> S -> Prop) m0 :
    I [] m0 ->
    (forall pre m e m', I pre m -> step m e = inl m' -> I (pre ++ [e]) m') ->
    forall es i, replay m0 i es = None ->
    forall pre e post, es = pre ++ e :: post ->
    exists mp m', I pre mp /\ step mp e = inl m'.
  Proof.
    intros H0 Hstep es i H pre e post E0.
    destruct (replay_split _ _ _ H pre e post E0) as (mp & m' & A & B).
    exists mp, m'. split; [|exact B]. eapply state_after_inv; eauto.
  Qed.
End Replay.

(* association lists Z -> V with default *)
Section Assoc.
  Context {V : Type}.
  Variable d : V.
  Fixpoint aget (m : list (Z * V)) (k : Z) : V :=
    match m with [] => d | (k', v) :: r => if k' =? k then v else aget r k end.
  Definition aset (m : list (Z * V)) (k : Z) (v : V) : list (Z * V) := (k, v) :: m.
  Lemma aget_aset m k v k' : aget (aset m k v) k' = if k =? k' then v else aget m k'.
  Proof. reflexivity. Qed.
  Lemma aget_aset_same m k v : aget (aset m k v) k = v.
  Proof. rewrite aget_aset, Z.eqb_refl. reflexivity. Qed.
  Lemma aget_aset_other m k v k' : k <> k' -> aget (aset m k v) k' = aget m k'.
  Proof. intros H. rewrite aget_aset. destruct (k =? k') eqn:E; [apply Z.eqb_eq in E; congruence|reflexivity]. Qed.
End Assoc.

(* Prelude.v -- list and arithmetic lemmas shared by the acceptors. *)
From Coq Require Import ZArith List Bool Lia Permutation.
Import ListNotations.
Open Scope Z_scope.

(* insertion sort on Z, used to decide "is a permutation of 1..N" *)
Fixpoint insert (x : Z) (l : list Z) : list Z :=
  match l with
  | [] => [x]
  | y :: r => if x <=? y then x :: l else y :: insert x r
  end.
Fixpoint isort (l : list Z) : list Z :=
  match l with [] => [] | x :: r => insert x (isort r) end.

Lemma insert_perm x l : Permutation (insert x l) (x :: l).
Proof.
  induction l as [|y r IH]; cbn; [reflexivity|].
  destruct (x <=? y); [reflexivity|].
  rewrite IH. apply perm_swap.
Qed.
Lemma isort_perm l : Permutation (isort l) l.
Proof. induction l as [|x r IH]; cbn; [constructor|]. rewrite insert_perm. auto. Qed.

(* 1, 2, ..., n as integers *)
Fixpoint zseq (start : Z) (n : nat) : list Z :=
  match n with O => [] | S k => start :: zseq (start + 1) k end.

Lemma zseq_length s n : length (zseq s n) = n.
Proof. revert s; induction n; cbn; auto. Qed.
Lemma zseq_In s n x : In x (zseq s n) <-> s <= x < s + Z.of_nat n.
Proof.
  revert s; induction n as [|n IH]; intros s; cbn [zseq In].
  - lia.
  - rewrite IH. lia.
Qed.
Lemma zseq_NoDup s n : NoDup (zseq s n).
Proof.
  revert s; induction n as [|n IH]; intros s; cbn; constructor; auto.
  rewrite zseq_In. lia.
Qed.
Lemma zseq_app s n m : zseq s (n + m) = zseq s n ++ zseq (s + Z.of_nat n) m.
Proof.
  revert s; induction n as [|n IH]; intros s.
  - cbn. f_equal. lia.
  - cbn [plus zseq app]. f_equal. rewrite IH. f_equal. f_equal. lia.
Qed.

Fixpoint list_eqb (a b : list Z) : bool :=
  match a, b with
  | [], [] => true
  | x :: r, y :: s => (x =? y) && list_eqb r s
  | _, _ => false
  end.
Lemma list_eqb_eq a b : list_eqb a b = true <-> a = b.
Proof.
  revert b; induction a as [|x r IH]; intros [|y s]; cbn; split; intros H; try congruence; try discriminate.
  - apply andb_true_iff in H as [H1 H2]. apply Z.eqb_eq in H1. apply IH in H2. congruence.
  - injection H as -> ->. rewrite Z.eqb_refl. apply IH. reflexivity.
Qed.

Fixpoint is_prefix (a b : list Z) : bool :=
  match a, b with
  | [], _ => true
  | x :: r, y :: s => (x =? y) && is_prefix r s
  | _ :: _, [] => false
  end.
Lemma is_prefix_spec a b : is_prefix a b = true <-> exists t, b = a ++ t.
Proof.
  revert b; induction a as [|x r IH]; intros b; cbn.
  - split; eauto.
  - destruct b as [|y s].
    + split; [discriminate|]. intros [t Ht]. discriminate.
    + rewrite andb_true_iff, Z.eqb_eq, IH. split.
      * intros [-> [t ->]]. eauto.
      * intros [t Ht]. injection Ht as -> ->. eauto.
Qed.

Definition zsum (l : list Z) : Z := fold_right Z.add 0 l.
Lemma zsum_app a b : zsum (a ++ b) = zsum a + zsum b.
Proof. unfold zsum. induction a; cbn; lia. Qed.

Definition zlen {X} (l : list X) : Z := Z.of_nat (length l).

Lemma length_concat_zsum (ls : list (list Z)) :
  zlen (concat ls) = zsum (map (fun l => zlen l) ls).
Proof.
  unfold zlen. induction ls as [|l r IH]; cbn; [reflexivity|].
  rewrite app_length, Nat2Z.inj_add, IH. reflexivity.
Qed.

Fixpoint memZ (x : Z) (l : list Z) : bool :=
  match l with [] => false | y :: r => (x =? y) || memZ x r end.
Lemma memZ_In x l : memZ x l = true <-> In x l.
Proof.
  induction l as [|y r IH]; cbn; [split; [discriminate|tauto]|].
  rewrite orb_true_iff, Z.eqb_eq, IH. split; intros [H|H]; auto.
Qed.

Fixpoint forallb2 {X Y} (f : X -> Y -> bool) (a : list X) (b : list Y) : bool :=
  match a, b with
  | [], [] => true
  | x :: r, y :: s => f x y && forallb2 f r s
  | _, _ => false
  end.
Lemma forallb2_Forall2 {X Y} (f : X -> Y -> bool) a b :
  forallb2 f a b = true <-> Forall2 (fun x y => f x y = true) a b.
Proof.
  revert b; induction a as [|x r IH]; intros [|y s]; cbn; split; intros H;
    try discriminate; try constructor; try solve [inversion H].
  - apply andb_true_iff in H; tauto.
  - apply IH. apply andb_true_iff in H; tauto.
  - inversion H; subst. apply andb_true_iff; split; [assumption|apply IH; assumption].
Qed.

Lemma last_cons {X} (a : X) l d : last (a :: l) d = last l a.
Proof.
  revert a d; induction l as [|x l IH]; intros a d; [reflexivity|].
  change (last (a :: x :: l) d) with (last (x :: l) d). rewrite IH. symmetry. apply IH.
Qed.

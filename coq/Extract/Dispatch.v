(* Dispatch.v -- one entry point per property for the OCaml driver. *)
From Coq Require Import ZArith List.
From CiwV Require Import Sx Sched.
From CiwV Require Acc.C01 Acc.C02 Acc.C03 Acc.C04 Acc.C05 Acc.C06 Acc.C07 Acc.C08 Acc.C09 Acc.C10 Acc.C11 Acc.C12 Acc.C13 Acc.C14 Acc.C15 Acc.C16 Acc.C18.
From CiwV Require Acc.C17.
From CiwV Require Acc.C19.
From CiwV Require Acc.C20.
From CiwV.Engine Require Codec.
From CiwV.Engine Require Codec2.
From CiwV.Inv Require ConserveRun CapacityRun AllRun AllRun2 Knot.
Import ListNotations.
Open Scope Z_scope.

Definition dispatch (name : Z) (s : sx) : verdict :=
  match name with
  | 1 => C01.run s
  | 2 => C02.run s
  | 3 => C03.run s
  | 4 => C04.run s
  | 5 => C05.run s
  | 6 => C06.run s
  | 7 => C07.run s
  | 8 => C08.run s
  | 9 => C09.run s
  | 10 => C10.run s
  | 11 => C11.run s
  | 12 => C12.run s
  | 13 => C13.run s
  | 14 => C14.run s
  | 15 => C15.run s
  | 16 => C16.run s
  | 17 => C17.run s
  | 18 => C18.run s
  | 19 => C19.run s
  | 20 => C20.run s
  | _ => BadInput (-1)
  end.

(* model evaluations that return data rather than a verdict *)
Definition enc_sstate (s : sstate) : sx := L [A (s_c s); A (s_next_date s); A (s_next_c s)].
Fixpoint upto (m : nat) : list nat := match m with O => [O] | S k => upto k ++ [m] end.

Definition dispatch_model (name : Z) (s : sx) : sx :=
  match name with
  | 45 => AllRun2.run_calls2 s     (* C17: the tracker calls the stage-2 engine model makes in one event *)
  | 44 => AllRun2.run_knot2 s      (* C18: hypotheses / conclusion of Knot2.knot2_is_permanent_in_scope on a real snapshot *)
  | 43 => AllRun.run_grid s        (* C20: hypotheses + conclusion of the DateSum grid theorems on one real event (stage 1) *)
  | 42 => AllRun2.run_grid2 s      (* C20: the same on stage 2 (DateSum2) *)
  | 41 => AllRun.run_calls s        (* C17: the tracker calls the engine model makes in one event (+ the TrackerInc invariant on the snapshot) *)
  | 40 => AllRun2.run_jrn2_real s  (* C03 on stage 2: journey invariant on a snapshot + the real cumulative records + arrival nodes *)
  | 39 => Knot.run_deadlockedb s   (* C18: does a (stage-1) snapshot contain a knot, and does it satisfy the hypotheses of deadlock_is_permanent? *)
  | 38 => AllRun2.run_invs2 s     (* every executable T2 invariant of the stage-2 engine on one snapshot *)
  | 37 => AllRun.run_jrn_real s   (* C03: journey invariant on a snapshot + the real cumulative records + arrival nodes *)
  | 36 => AllRun.run_invs s       (* every executable T2 invariant on one snapshot: L [wfx; cap; clk; ...] *)
  | 35 => CapacityRun.run_capb s   (* capacity hypotheses of engine_capacity on a snapshot *)
  | 34 => ConserveRun.run_wfx s   (* does a snapshot satisfy the conservation invariant WFx []? *)
  | 33 => Codec2.run_wrap s  (* engine model stage 2: Simulation.wrap_up_servers(T) *)
  | 32 => Codec2.run_step s  (* engine model stage 2: one event from the implementation's snapshot *)
  | 31 => Codec.run_wrap s   (* engine model: Simulation.wrap_up_servers(T) *)
  | 30 => Codec.run_step s   (* engine model: one event from the implementation's snapshot *)
  | 12 => (* Schedule object: states after 0..m calls of get_next_shift *)
    match s with
    | L [b; v; A off; A m] =>
      match getZs b, getZs v with
      | Some b', Some v' => L (map (fun k => enc_sstate (run_shifts b' v' off k)) (upto (Z.to_nat m)))
      | _, _ => L []
      end
    | _ => L []
    end
  | 13 => (* Slotted: (date, size) of slot 0..m *)
    match s with
    | L [b; v; A off; A m] =>
      match getZs b, getZs v with
      | Some b', Some v' => L (map (fun k => L [A (slot_date b' off k); A (slot_size v' k)]) (upto (Z.to_nat m)))
      | _, _ => L []
      end
    | _ => L []
    end
  | 170 => C17.sp_model s   (* state_probabilities over Q *)
  | 190 => C19.model_ps s   (* PS node model: departures, starts, settled states *)
  | 191 => C19.model_fifo s (* single-server FIFO (Lindley) model *)
  | 200 | 201 | 202 | 203 => C20.model name s   (* Decimal: add_k, of_lit, running sums, comparison *)
  | _ => L []
  end.

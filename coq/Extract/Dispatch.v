(* Dispatch.v -- one entry point per property for the OCaml driver. *)
From Coq Require Import ZArith List.
From CiwV Require Import Sx.
From CiwV Require Acc.C01 Acc.C02 Acc.C04 Acc.C05 Acc.C06 Acc.C07 Acc.C08.
Import ListNotations.
Open Scope Z_scope.

Definition dispatch (name : Z) (s : sx) : verdict :=
  match name with
  | 1 => C01.run s
  | 2 => C02.run s
  | 4 => C04.run s
  | 5 => C05.run s
  | 6 => C06.run s
  | 7 => C07.run s
  | 8 => C08.run s
  | _ => BadInput (-1)
  end.

(* model evaluations that return data rather than a verdict *)
Definition dispatch_model (name : Z) (s : sx) : sx :=
  match name with
  | _ => L []
  end.

(* Extraction of the executable acceptors and models.  ExtrOcamlBasic only:
   Z, N, positive, nat stay the Coq inductives. *)
From Coq Require Import ZArith List.
From Coq Require Extraction.
From Coq Require Import ExtrOcamlBasic.
From CiwV Require Import Sx Dispatch.
Extraction Language OCaml.
Extraction "ciwx.ml" dispatch dispatch_model Z.add Z.mul Z.opp Z.div_eucl.

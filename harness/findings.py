"""findings.py -- matching of a rejected frame / exception against the open
entries of known_findings.json.  Triggers are predicates on the failing case
(clause + state condition), never on the property as a whole."""
import json, os

VERIF = os.path.dirname(os.path.dirname(os.path.abspath(__file__)))
_KF = None


def load():
    global _KF
    if _KF is None:
        p = os.path.join(VERIF, 'known_findings.json')
        _KF = json.load(open(p)) if os.path.exists(p) else {'findings': []}
    return _KF


def open_ids(pid):
    return [f['id'] for f in load()['findings'] if f.get('status') == 'open' and pid in f.get('properties', [])]


def describe(fid):
    for f in load()['findings']:
        if f['id'] == fid:
            return f.get('what', '')
    return ''


TRIGGERS = {}


def trigger(fid):
    def deco(fn):
        TRIGGERS[fid] = fn
        return fn
    return deco


GENERIC = ('F-02a', 'F-02b', 'F-02c')      # triggers written against FRAME indices


def frame_verdict(pid, tr, verdict):
    """acceptors over event lists report an event index; the generic triggers want the index of the frame it lies in"""
    if not verdict or verdict[0] != 'R':
        return verdict
    try:
        mod = __import__('props.%s' % pid.lower(), fromlist=['PROP'])
        P = mod.PROP
        if hasattr(P, 'frame_index'):
            return ('R', P.frame_index(tr, verdict[1])) + tuple(verdict[2:])
    except Exception:
        pass
    return verdict


# a finding explains only the failure patterns it is known to cause: where a (finding, property) pair is listed here the
# failing clause must be one of the listed ones, so that a different violation in the same run is still reported
CLAUSES = {
    ('F-02b', 'C03'): {37},          # the clock went back: a record whose exit lies before its arrival
    ('F-02a', 'C03'): {37},
    # calibrated on the thorough tier of the unchanged tree (every failure the finding produced there had this clause)
    ('F-02a', 'C02'): {1}, ('F-02b', 'C02'): {2}, ('F-02c', 'C02'): {2},
    ('F-02b', 'C04'): {32},
    ('F-02b', 'C12'): {69, 70},      # 70: the unblocked interrupted customer's restored start date reads as a fresh start while another interrupted one waits
    ('F-02b', 'C05'): {41},
    ('F-12a', 'C14'): {182}, ('F-12d', 'C14'): {182},   # the stranded customer's service end is the event left unexecuted          # the restarted blocked customer starts in a shift with zero servers          # a restarted blocked customer: service start after its (earlier) exit stamp
}


def match(pid, cfg, tr, verdict):
    vf = None
    for fid in open_ids(pid):
        fn = TRIGGERS.get(fid)
        if fn is None:
            continue
        allowed = CLAUSES.get((fid, pid))
        if allowed is not None and verdict and verdict[0] == 'R' and verdict[2] not in allowed:
            continue
        try:
            if fid in GENERIC:
                if vf is None:
                    vf = frame_verdict(pid, tr, verdict)
                hit = fn(pid, cfg, tr, vf)
            else:
                hit = fn(pid, cfg, tr, verdict)
            if hit:
                return fid
        except Exception:
            pass
    return None


def match_init(pid, cfg, exc):
    return None


# ------------------------------------------------------------------ triggers
def _frames_upto(tr, v):
    k = v[1] if v and v[0] == 'R' else len(tr.frames)
    fr = tr.frames[:max(k, 0)]
    if tr.partial is not None and (not v or v[0] != 'R' or k > len(tr.frames)):
        fr = fr + [tr.partial]
    return fr


def _events(tr, v, kinds):
    for f in _frames_upto(tr, v):
        for e in f['cev']:
            if e[0] in kinds:
                yield e
    if tr.partial is not None:
        for e in tr.partial['cev']:
            if e[0] in kinds:
                yield e


@trigger('F-02a')
def _f02a(pid, cfg, tr, v):
    """priority pre-emption of a blocked customer (in or before the failing frame)"""
    return any(e[5] == 1 for e in _events(tr, v, ('Preempt',)))


@trigger('F-02b')
def _f02b(pid, cfg, tr, v):
    """pre-emptive shift change / slot interrupting a blocked customer"""
    return any(e[3] == 1 for e in _events(tr, v, ('Interrupt',)))


@trigger('F-02c')
def _f02c(pid, cfg, tr, v):
    """a pre-empted customer keeps a reneging date that has already passed"""
    if v[0] != 'R':
        return False
    k = v[1]
    if k < 1 or k > len(tr.frames):
        return False
    # only PRIORITY pre-emption detaches the server (ind.server = False) and so lets the victim renege again; a customer
    # interrupted by a shift change keeps a (dead) server reference and is never a renege candidate on the unchanged tree
    victims = set(e[2] for e in _events(tr, v, ('Preempt',)))
    snap = tr.frames[k - 1]['snap']
    now = tr.frames[k - 1]['now']
    if pid == 'C02' and not (v[2] in (1, 2)):
        return False
    for i, ind in snap['inds'].items():
        rd = ind.get('reneging_date')
        if i in victims and ind['server'] is None and isinstance(rd, int) and rd < now:
            return True
    # the stale date may already have fired: the renege event itself ran in the past
    f = tr.frames[k - 1]
    if f['label'][0] == 'renege' and any(x in victims for x in f['label'][2]):
        return True
    return False


@trigger('F-06a')
def _f06a(pid, cfg, tr, v):
    """rejection at a scheduled node whose population is below queue capacity + servers on duty"""
    if v[0] != 'R' or v[2] != 13 or v[1] < 1:
        return False
    f = tr.frames[v[1] - 1]
    for e in f['cev']:
        if e[0] == 'Spawn' and isinstance(cfg['servers'][e[1] - 1], dict) and cfg['servers'][e[1] - 1]['kind'] == 'sched':
            return True
    return False


@trigger('F-08a')
def _f08a(pid, cfg, tr, v):
    """FIFO-by-arrival broken by a customer that changed class while waiting (appended at the tail of its new class)"""
    if v[0] != 'R' or v[2] not in (52, 54) or cfg.get('cct') is None:
        return False
    from props.c08 import starts
    p, meta = starts(tr)
    if v[1] >= len(p):
        return False
    fi, node, chosen = meta[v[1]]
    changed = set()
    for f in tr.frames[:fi + 1]:
        for e in f['cev']:
            if e[0] == 'ClassChangeW' and e[1] == node:
                changed.add(e[2])
    members = set(c[0] for q in p[v[1]][2] for c in q if c[1])
    return bool(changed & members)


@trigger('F-09a')
def _f09a(pid, cfg, tr, v):
    """the failing routing / class-change decision consumed a uniform draw of exactly 0"""
    if v[0] != 'R' or v[2] != 150:
        return False
    from props.c09 import events
    ev = events(tr)[0]
    k = v[1]
    return k < len(ev) and ev[k][0] == 1 and ev[k][3] == 0


@trigger('F-09b')
def _f09b(pid, cfg, tr, v):
    """JSQ/LB counters differ from the true lines in a run with a 'reroute' pre-emption option (or after F-02b)"""
    if v[0] != 'R' or v[2] != 155:
        return False
    if any(p == 'reroute' for p in (cfg.get('preempt') or [])):
        return True
    if any(isinstance(s, dict) and s.get('pre') == 'reroute' for s in cfg['servers']):
        return True
    from props.c09 import PROP as _P
    fk = _P.frame_index(tr, v[1])
    return _f02b(pid, cfg, tr, ('R', fk, 0, [])) or _f02a(pid, cfg, tr, ('R', fk, 0, []))


@trigger('F-11a')
def _f11a(pid, cfg, tr, v):
    """reroute pre-emption with the victim rerouted into the same node: the pre-emptor's service is started twice"""
    if v[0] != 'R':
        return False
    if pid == 'C11':
        if v[2] != 169:
            return False
        from props.c11 import PROP as _P
    elif pid == 'C10':
        if v[2] not in (108, 109):
            return False
        from props.c10 import PROP as _P
    else:
        return False
    fk = _P.frame_index(tr, v[1]) if hasattr(_P, 'frame_index') else None
    if fk is None or fk < 1 or fk > len(tr.frames):
        return False
    cev = tr.frames[fk - 1]['cev']
    pre = cfg.get('preempt') or []
    for e in cev:
        if e[0] == 'Preempt' and e[1] - 1 < len(pre) and pre[e[1] - 1] == 'reroute':
            if any(x[0] == 'Route' and x[8] == 1 and x[2] == e[2] and x[4] == e[1] for x in cev):
                return True
    return False


def _stranded(cfg, snap, node_ok):
    for n in snap['nodes']:
        j = n['id'] - 1
        if not node_ok(j, cfg['servers'][j]):
            continue
        ids = set(x['id'] for x in (n['servers'] or []))
        for q in n['queues']:
            for i in q:
                d = snap['inds'][i]
                if isinstance(d['server'], int) and d['server'] >= 1 and d['server'] not in ids and not d['interrupted']:
                    return True
    return False


def _inversion_at(snap, j):
    n = snap['nodes'][j]
    w, sv = [], []
    for q in n['queues']:
        for i in q:
            ind = snap['inds'][i]
            if ind['service_start_date'] is None:
                if not ind['interrupted']:
                    w.append(ind['prio'])
            else:
                sv.append(ind['prio'])
    return any(pq > pw for pw in w for pq in sv)


def _f11cd(pid, cfg, tr, v, want_pre):
    if v[0] != 'R' or v[2] != 171:
        return False
    vf = frame_verdict(pid, tr, v)
    k = vf[1]
    if not isinstance(k, int) or k < 1 or k > len(tr.frames):
        return False
    snap = tr.frames[k - 1]['snap']
    pre = cfg.get('preempt') or []
    for j, sv in enumerate(cfg['servers']):
        if not (isinstance(sv, dict) and sv['kind'] == 'sched' and j < len(pre) and pre[j]):
            continue
        if bool(sv.get('pre')) != want_pre or not _inversion_at(snap, j):
            continue
        if want_pre or any(x['offduty'] and x['busy'] for x in (snap['nodes'][j]['servers'] or [])):
            return True
    return False


@trigger('F-11c')
def _f11c(pid, cfg, tr, v):
    """inversion at a node with pre-emptive priorities AND a pre-emptive Schedule (interrupted customers restart first)"""
    return _f11cd(pid, cfg, tr, v, True)


@trigger('F-11d')
def _f11d(pid, cfg, tr, v):
    """inversion at a node with pre-emptive priorities and a non-pre-emptive Schedule while an off-duty server is busy (overtime)"""
    return _f11cd(pid, cfg, tr, v, False)


@trigger('F-07b')
def _f07b(pid, cfg, tr, v):
    """a 'reroute' priority pre-emption at a node with a finite queue capacity: the place the victim frees is not offered to the blocked queue"""
    pre = cfg.get('preempt') or []
    qc = cfg.get('qcap')
    if not qc:
        return False
    for e in _events(tr, frame_verdict(pid, tr, v), ('Preempt',)):
        j = e[1] - 1
        if j < len(pre) and pre[j] == 'reroute' and qc[j] != 'inf':
            return True
    return False


@trigger('F-12a')
def _f12a(pid, cfg, tr, v):
    """a customer attached to a server that its node has retired, at a node with a 'reroute' Schedule (rerouted into the same node)"""
    if v[0] != 'R':
        return False
    vf = frame_verdict(pid, tr, v)
    k = vf[1]
    if not isinstance(k, int) or k < 1:
        return False
    k = min(k, len(tr.frames))
    if k < 1:
        return False
    ok = lambda j, sv: isinstance(sv, dict) and sv['kind'] == 'sched' and sv.get('pre') == 'reroute'
    return any(_stranded(cfg, snap, ok) for snap in (tr.frames[k - 1]['snap'], tr.frames[max(k - 2, 0)]['snap']))


@trigger('F-12d')
def _f12d(pid, cfg, tr, v):
    """a customer attached to a server that its node has retired, at a node with pre-emptive priorities and a non-pre-emptive Schedule"""
    if v[0] != 'R':
        return False
    vf = frame_verdict(pid, tr, v)
    k = vf[1]
    if k < 1 or k > len(tr.frames):
        return False
    pre = cfg.get('preempt') or []
    for snap in (tr.frames[k - 1]['snap'], tr.frames[max(k - 2, 0)]['snap']):
        for n in snap['nodes']:
            j = n['id'] - 1
            sv = cfg['servers'][j]
            if not (isinstance(sv, dict) and sv['kind'] == 'sched' and not sv.get('pre')):
                continue
            if not (j < len(pre) and pre[j]):
                continue
            ids = set(x['id'] for x in (n['servers'] or []))
            for q in n['queues']:
                for i in q:
                    d = snap['inds'][i]
                    if isinstance(d['server'], int) and d['server'] >= 1 and d['server'] not in ids and not d['interrupted']:
                        return True
    return False


def _after_events(tr, kinds):
    a = getattr(tr, 'after', None)
    if not a:
        return
    K = set(a['K'])
    for f in tr.frames[a['k0']:a['moved'][0]]:
        for e in f['cev']:
            if e[0] in kinds and e[1] in K:
                yield e


@trigger('F-18a')
def _f18a(pid, cfg, tr, v):
    """between the reported deadlock and the first move of one of its customers a WAITING customer of a node of the knot reneged"""
    return v[0] == 'R' and v[2] == 96 and any(True for _ in _after_events(tr, ('Renege',)))


@trigger('F-18b')
def _f18b(pid, cfg, tr, v):
    """between the reported deadlock and the first move of one of its customers a node of the knot had a shift change (new server objects)"""
    return v[0] == 'R' and v[2] == 96 and any(True for _ in _after_events(tr, ('ShiftChange', 'ServersOn')))

"""findings.py -- matching of a rejected frame / exception against the open
entries of known_findings.json.  Triggers are predicates on the failing case
(clause + state condition), never on the property as a whole."""
import json, os

VERIF = os.path.dirname(os.path.dirname(os.path.abspath(__file__)))
_KF = None


def load():
    global _KF
    if _KF is None:
        p = os.path.join(VERIF, 'known_findings.json')
        _KF = json.load(open(p)) if os.path.exists(p) else {'findings': []}
    return _KF


def open_ids(pid):
    return [f['id'] for f in load()['findings'] if f.get('status') == 'open' and pid in f.get('properties', [])]


def describe(fid):
    for f in load()['findings']:
        if f['id'] == fid:
            return f.get('what', '')
    return ''


TRIGGERS = {}


def trigger(fid):
    def deco(fn):
        TRIGGERS[fid] = fn
        return fn
    return deco


def match(pid, cfg, tr, verdict):
    for fid in open_ids(pid):
        fn = TRIGGERS.get(fid)
        if fn is None:
            continue
        try:
            if fn(pid, cfg, tr, verdict):
                return fid
        except Exception:
            pass
    return None


def match_init(pid, cfg, exc):
    return None

#!/bin/sh
# usage: verify_seeded.sh <seeded dir>  -- confirms in a scratch worktree: suite passes with the patch,
# demo fails with it and passes without it.  Prints one summary line and writes <dir>/verified.txt
d=$(cd "$1" && pwd); name=$(basename "$d")
wt=/tmp/vs_$name
git -C /repo worktree add --detach "$wt" HEAD -q || exit 2
cd "$wt"
PYTHONPATH=$wt /venv/bin/python "$d/demo.py" >/dev/null 2>&1; clean=$?
git apply "$d/patch.diff" || { echo "$name: patch does not apply"; git -C /repo worktree remove --force "$wt"; exit 2; }
PYTHONPATH=$wt /venv/bin/python "$d/demo.py" >/dev/null 2>&1; mut=$?
tests=$(PYTHONPATH=$wt /venv/bin/python -m pytest -q -p no:cacheprovider 2>&1 | tail -1)
cd /; git -C /repo worktree remove --force "$wt"
echo "$name: demo clean rc=$clean, demo mutated rc=$mut, suite with patch: $tests" | tee "$d/verified.txt"

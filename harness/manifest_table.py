SOURCE_COMMITS = []
NOTES = ('Machine-checked proof in Coq 8.16.1 of executable acceptors/models (T1, T2 where stated) + correspondence '
         'of the real implementation with them on generated inputs (K1 conformance, K2 model correspondence). See DESIGN.md.')
NA = {}
COMMON_NOTE = ('Trusted: Coq kernel; extraction (ExtrOcamlBasic only) + OCaml; ocaml/driver.ml parser; the Python observer '
               '(behaviour-free subclasses of the real classes) and tick scaling. The tie to /repo is conformance testing of '
               'real runs against the proved acceptor, not a proof about node.py. Float rounding is outside the model '
               '(dyadic-grid inputs). Axioms: none (Print Assumptions: closed under the global context).')
CHECKS['C01'] = dict(
    text='T1 C01_sound (Coq, by induction over traces of any length): every trace accepted by the extracted local acceptor '
         'satisfies customer conservation (ids 1..N each in exactly one place, counters = true populations, arrivals = nodes + exit, '
         'exit is permanent). K1: every observed run of the real engine (all feature regions) is accepted after every event.',
    note=COMMON_NOTE,
    technique='Coq theorem about an executable acceptor + conformance of real traces (runtime refinement check)')

SOURCE_COMMITS = []
NOTES = ('Machine-checked proof in Coq 8.16.1 of executable acceptors/models (T1, T2 where stated) + correspondence '
         'of the real implementation with them on generated inputs (K1 conformance, K2 model correspondence). See DESIGN.md.')
NA = {}
COMMON_NOTE = ('Trusted: Coq kernel; extraction (ExtrOcamlBasic only) + OCaml; ocaml/driver.ml parser; the Python observer '
               '(behaviour-free subclasses of the real classes) and tick scaling. The tie to /repo is conformance testing of '
               'real runs against the proved acceptor, not a proof about node.py. Float rounding is outside the model '
               '(dyadic-grid inputs). Axioms: none (Print Assumptions: closed under the global context).')
CHECKS['C01'] = dict(
    text='T1 C01_sound (Coq, by induction over traces of any length): every trace accepted by the extracted local acceptor '
         'satisfies customer conservation (ids 1..N each in exactly one place, counters = true populations, arrivals = nodes + exit, '
         'exit is permanent). K1: every observed run of the real engine (all feature regions) is accepted after every event. '
         'T2 event_step_conserves / run_many_conserves (Coq, Hoare-style over the state-and-error monad, the unblocking cascade by induction on fuel): '
         'the hand-written ENGINE MODEL coq/Engine (stage 1: ordinary nodes, capacities and blocking, non-pre-emptive priorities, all disciplines, batching, '
         'baulking, class-change matrices, transition matrices) preserves the conservation invariant WFx for every configuration, every state satisfying it and '
         'every oracle of draws (= all seeds, distributions and tie-breaks), any number of events; WFx_means spells the invariant out in the words of the property. '
         'K2: on every in-scope observed run the model, started from the IMPLEMENTATION\'s own previous snapshot with the draws it consumed, reproduces the next '
         'snapshot and records exactly, and the initial snapshot satisfies WFx (wfx_b_sound). T2 exit_is_permanent / event_step_grows: the exit list only ever grows and a customer at the exit is in no node after any number of events. '
         'The extracted invariant test wfx_b is also evaluated on every real snapshot K2 visits.',
    note=COMMON_NOTE,
    technique='Coq theorem about an executable acceptor + conformance of real traces (runtime refinement check)')

TECH = 'Coq theorem about an executable acceptor + conformance of real traces (runtime refinement check)'


def _add(pid, text, note_extra='', technique=TECH):
    CHECKS[pid] = dict(text=text, note=COMMON_NOTE + (' ' + note_extra if note_extra else ''), technique=technique)


_add('C02',
     'T1 C02_sound (Coq, induction over traces of any length): on every accepted trace the clock is monotone, each event runs at the '
     'minimum of all dates scheduled in the previous snapshot (recomputed from raw attributes, not from the cached next_event_date), '
     'no scheduled date lies in the past, and every record satisfies the ordering/arithmetic of its type. K1: every observed run of the '
     'real engine is accepted frame by frame. T2 event_step_clk / run_many_clk / run_many_monotone (Coq, Inv/Clock.v): the ENGINE MODEL (stage 1) keeps the clock invariant Clk '
     '(no arrival, node event or end of service scheduled in the past; the arrival node\'s date is the minimum of its table; the event executed next is scheduled exactly at the '
     'current time) and the clock never decreases, for every configuration, every state satisfying Clk and every oracle whose service and inter-arrival times are >= 0, any number of events; '
     'Clk_means restates it in the words of the property. K2: the model reproduces the real engine step by step on in-scope runs, and the extracted test clk_b (clk_b_sound) holds on '
     'the initial and every later real snapshot visited.',
     'Open findings F-02a/F-02b/F-02c (pre-emption or pre-emptive shift change of a blocked customer; stale reneging date) are '
     'recognised by frame-level triggers and reported as KNOWN-FINDING.')
_add('C04',
     'T1 C04_sound (Coq): on every accepted trace server<->customer attachment is a bijection in every snapshot, on-duty count = c, '
     'an attachment persists until a release/interruption of that customer, service intervals of one server id are pairwise disjoint '
     '(interval-packing lemma over Z) and the reported busy/total times equal the time attached to customers, hence utilisation in [0,1] (also for servers a non-pre-emptive Schedule has retired, and for runs made in several calls). '
     'K1: every observed run is accepted. T2 event_step_srv / run_many_srv / engine_servers / server_stays (Coq, Inv/Servers.v, engine model stage 1): for every configuration, every state satisfying the invariant and every oracle of draws, after any number of events: '
     'c servers with distinct ids, busy iff holding a customer, server->customer and customer->server are mutually inverse (no sharing), at most c in service; and over each event a busy server keeps its customer (blocked or not) '
     'until that customer\'s service record at that node is written. K2 ties the model to the code step by step; the extracted test srv_b (srv_b_sound) holds on the initial and every later real snapshot visited.')
_add('C05',
     'T1 C05_sound (Coq): in every accepted snapshot of a non-slotted finite-server node, a waiting customer implies every on-duty server '
     'is busy; every positive wait ends in a frame containing a capacity-freeing event at that node. K1 on all regions. '
     'T2 event_step_ni / run_many_ni / engine_nonidle (Coq, Inv/NonIdle.v on top of Inv/Servers.v; engine model stage 1: fixed finite servers, blocking, priorities, all disciplines): for every configuration, '
     'every state satisfying the invariant and every oracle of draws, after any number of events: whenever a customer of a node has no server every server of that node is busy, and the number of busy servers is '
     'min(c, customers at the node). K2 ties the model to the code step by step; the extracted test ni_b (ni_b_sound) holds on the initial and every later real snapshot visited.')
_add('C06',
     'T1 C06_sound (Coq): the acceptor replays the Spawn/Enter/Leave events of each frame from the previous populations; on accepted '
     'traces no node exceeds servers+queue capacity, the system never exceeds system capacity, and C06_rejected_iff_full: an external '
     'arrival is rejected iff its node or the system is full at its turn (batch members one by one). K1 on all regions without reroute. '
     'T2 engine_capacity (Coq, Hoare-style over the engine monad; node capacities by a walk that carries "destination has space" from each of the three '
     'admission tests to the accept it guards, through the unblocking cascade by induction on fuel; system capacity through the monotone quantity '
     'created - exited and conservation): for every configuration, every state satisfying the invariants, every oracle of draws and any number of events the '
     'ENGINE MODEL never holds more than servers + queue capacity at a node nor more than the system capacity. K2: stepwise correspondence of the model '
     'with the implementation on the slice of this property; the hypotheses are evaluated on the real initial snapshot (cap_b_sound).',
     'Open finding F-06a (node_capacity of a scheduled node computed while c=0) is reported as KNOWN-FINDING.')
_add('C07',
     'T1 C07_sound (Coq): on accepted traces a finishing customer leaves at once iff its destination has space, otherwise is blocked '
     'keeping its server; no blocked customer while its destination has space at a frame boundary; blocked queues are pure FIFO '
     '(tail-append at Block, head-removal at Unblock) so customers enter a node in the order they became blocked to it; time_blocked = '
     'exit - end. K1 on restricted networks (non-pre-emptive). '
     'T2 engine_blocking (Coq, Inv/Blocking.v, 2 200 lines; engine model stage 1; the unblocking cascade by induction on fuel with a slack of one place for the node being refilled): for every configuration, every state '
     'satisfying the invariants and every oracle of draws, after any number of events - Blk: the blocked-queue counter is the length, somebody is blocked to a node only if it has a finite capacity and is full (nobody is left blocked while the '
     'destination has space); event_step_fifo: per event either blocked queues only lose heads or exactly one customer of the active node joins the END of the queue of a full node and nothing else changes (FIFO); Who: every entry (from, y) is a customer of node `from`, '
     'flagged blocked with that destination and still holding its server, every customer flagged blocked is in exactly one queue once. K2 ties the model to the code step by step; blk_b / who_b (sound) hold on the initial and every later real snapshot visited.')
_add('C08',
     'T1 C08_sound (Coq): every accepted service start chose a customer of the first non-empty waiting priority class, the earliest arrival '
     '(FIFO) / latest (LIFO) / any (SIRO) of that class, evaluated on the waiting line captured at the moment of the choice. K1: every '
     'start of every observed run. T2, function level (Coq, Inv/Order.v, engine model stage 1): chosen_is_prescribed - what choose_next_customer returns waits, is in the first priority class '
     'in which anybody waits and is the first / last waiting one in queue order under FIFO / LIFO (any under SIRO); none_chosen_none_waiting; bsip_release_starts_chosen / '
     'bsip_accept_starts_chosen - the service-start block is entered only with that choice and changes no other customer; accept_appends - queue order is arrival order. '
     '(Not an invariant over runs: the statement about every start of a run is carried by T1 + K1 and K2.)',
     'Open finding F-08a (class change while waiting appends at the tail) is reported as KNOWN-FINDING.')
_add('C12',
     'Sched.v: closed form of the Schedule generator after k shift changes (sched_after), strict monotonicity of shift dates for '
     'well-formed timetables (wf_dates_increasing); T1 C12_sound: every schedule/slot event of an accepted run is the one the cyclic '
     'timetable prescribes (date, server count, slot size; zero-server shifts start nothing; interrupted customers restart first; a node executes an end of service only strictly before its own due shift change / slot). '
     'K1: observed runs + object-level differential of Schedule/Slotted against the extracted model.',
     technique='Coq theorems about a hand-written model of the schedule generator + acceptor; differential and conformance against the real objects')
_add('C18',
     'Deadlock.v: deadlocked_iff_D (Coq): the pruning computation returns a non-empty set iff there is a non-empty set of servers all holding '
     'customers blocked towards servers of the set (the structural definition in the property). T1 C18_sound: on every accepted '
     'simulate_until_deadlock run the loop never continues past a state with a genuine deadlock of the TRUE wait-for relation (recomputed '
     'from raw attributes), stops only in one, and each time to deadlock = deadlock time - first visit >= 0. K1: observed runs on restricted '
     'networks; the detector digraph and the networkx knot search are tied to the model at every frame and on random digraphs.',
     'Mechanism clauses (digraph = wait-for relation; knot search = structural definition) are correspondence obligations: if only they fail the '
     'check reports no-failing-input-found. networkx itself is trusted library code tied by differential testing.')
_add('C10',
     'T1 C10_sound (Coq, induction over event lists of any length via Replay.replay_sound): on every accepted run each arrival event of a stream '
     'happens at the sum of the inter-arrival samples the distribution object returned so far (one sample per arrival, and no arrival is overdue when '
     'the clock moves), customers created = the sampled batch sizes, every uninterrupted service at an ordinary node lasts exactly the value sampled '
     'for that customer at its start instant, and a sample that is not a non-negative number (batch: non-negative integer) ends the run with an error. '
     'K1: observed runs on all regions + a malformed-sample stream (negative, nan, non-numeric, non-integer batch). '
     'T2 (Coq, Inv/Samples.v, engine model stage 1, every configuration and oracle): arrival_have_event_spec (an arrival event creates exactly the sampled batch size and moves its stream on by exactly the '
     'sampled inter-arrival time, no other stream moves), negative_batch_is_an_error, finish_service_keeps_arrivals, start_service_spec (start, sampled duration, end = start + duration on the customer, '
     'same end on the server), run_many_svc / SvcInv_means (the stamps stay consistent over any number of events), record_shows_sampled_time. K2 ties the model to the code step by step and evaluates '
     'the invariant on every real snapshot visited.',
     'Samples are logged inside the scripted distribution objects (the oracle), independently of the engine attributes they are compared with.')
_add('C13',
     'T1 C13_sound (Coq, induction over event lists of any length): on every accepted run the patience is sampled at arrival; a renege happens '
     'exactly at arrival + patience, only to a customer whose service has not started and who holds no server, who enters its jockeying '
     'destination in the same frame with a renege record; after every event no waiting customer has outwaited its patience and its reneging date '
     'is arrival + patience; every arriving customer with a baulking function baulks iff u < p where p is the value the function returned for the '
     'TRUE population (so never for p = 0, always for p = 1), a baulker is at the exit at once with a baulk record, anyone else is admitted. '
     'K1: observed runs with reneging, baulking tables, priorities, pre-emption, schedules and capacities.',
     'Open finding F-02c (pre-empted customer keeps a reneging date that has passed) is reported as KNOWN-FINDING. The uniform draw is compared '
     'exactly (numerator over 2^53).')
_add('C17',
     'Tracker.v + T1 C17_sound (Coq, induction over traces of any length): on every accepted trace the hash_state of the tracker equals, after every '
     'event, the TRUE state that the Gallina function true_state computes from raw configuration facts (who queues where, class, blocked flag, '
     'destination; for MatrixBlocking the ghost global blocking order maintained from Block/Unblock events, shown to list exactly the blocked '
     'customers once each), hence no count is negative (true_state_nonneg); the history is exactly (0, initial state) followed by the frames whose '
     'state differs from the frame before, each stamped with its event time (changes_filter), so consecutive entries differ and timestamps are '
     'non-decreasing. state_probabilities_spec (Coq, over Q): for a history with non-decreasing timestamps and a finite window 0 <= a < b with no '
     'timestamp equal to b, the statement-by-statement model returns for every state its exact share of the time in [max a t0, b], summing to 1. '
     'K1: all seven trackers on every feature region, every frame; differential of the real state_probabilities against the extracted model and an '
     'independent exact computation on synthetic and recorded Fraction histories.',
     'Outside the guard the full statement is FALSE of the faithful model and of the implementation (state_probabilities_refuted_*: window end = inf '
     'credits the final state with the previous interval; a timestamp equal to the window end drops that interval or divides by zero) -- F-17b, a '
     'candidate finding replayed on the real code in every run and reported in the evidence, not claimed as proved. Open findings F-02a/F-02b/F-02c '
     '(pre-emption of a blocked customer; clock running backwards) are reported as KNOWN-FINDING. A blocked customer that has already drawn its '
     'class change counts under the class it was served in.',
     technique='Coq theorems about an executable acceptor and a hand-written model of state_probabilities over Q; conformance of real traces and '
               'differential testing against the real function on exact rationals')
_add('C03',
     'T1 C03_sound (Coq, induction over event lists of any length): on every accepted run each visit of a customer begins at the node named as '
     'destination by its previous visit-closing record (its arrival node for the first visit) at the instant that record ended; the exit is '
     'reached only through a record naming it (destination -1, baulk, rejection, renege to the exit); every record lies at the node and carries '
     'the arrival date of the visit in progress; visits and service/renege/reroute records are in bijection; baulk/rejection records are the only '
     'record; nobody is in flight between events; the true final location equals the end of the recorded journey. K1: observed runs on all regions '
     '(blocking, pre-emption, reroute, reneging, schedules, slotted, PS).')
_add('C19',
     'Sub/PS.v (Coq, over Q): executable model of one processor-sharing node (capacity K in N or infinity, threshold R, arbitrary finite '
     'arrival list with rational dates and requirements) mirroring processor_sharing.py method by method. Proved for every reachable state of '
     'every run (any number of customers/events): ps_rate + rate_min (between consecutive events each customer in service progresses at '
     'R/max(k,R) = min(1,R/k), k = number in service); ps_work (a customer departs exactly when its remaining work is 0 and the work it received, '
     'summed over the elapsed intervals, equals its requirement) and ps_no_early (remaining work >= 0 while in service; received + remaining = '
     'requirement); ps_capacity (at most K in service, they are the head of the line, occupancy = min(n,K), service starts happen in arrival '
     'order); ps_fifo_equiv (K = infinity, R = 1: total remaining work equals that of the single-server FIFO/Lindley model at every event '
     'instant, so both run out of work at the same instants) with fifo_work_closed; ps_complete (the extracted run ends with everybody departed '
     'and is a reachable state). K1 = K2: the real ciw.PSNode is driven on exact rationals (int inter-arrivals, fractions.Fraction requirements '
     'and threshold) and every customer\'s arrival/start/exit date and the node slice (time_left, with_server, end dates, last update, '
     'last_occupancy) at every instant are compared exactly (Qeq_bool) with the extracted model, for single nodes under two tie-break seeds '
     'and for every PS node inside small exact networks (feedback, two classes); a ciw.Node twin checks the FIFO clause on the implementation.',
     'C19_accept_sound states what acceptance means (the records carry the dates of PS.ps_run). The model is tied to /repo by this exact '
     'differential comparison, not by a proof about processor_sharing.py. Ties between simultaneous events are resolved at random by Ciw; the '
     'model lets departures go first; dates and per-instant states do not depend on the resolution (checked, not proved). Scope: one priority '
     'class at the PS node, no blocking into or out of it, R > 0, K >= 1; float rounding is outside the model (the float PSNode is not compared).',
     technique='Coq theorems about a hand-written executable model over Q + exact differential testing of the real PSNode on rationals (translation-validation style)')
_add('C09',
     'Routing.v (Coq): model of auxiliary.random_choice with rc_weighted_positive (a positive draw only selects entries of positive '
     'probability), rc_weighted_total (no IndexError when the probabilities sum to 1), rc_weighted_refuted_at_zero (finding F-09a: a draw of exactly 0 '
     'selects a zero-probability first entry) and argmins_spec (JSQ/LB candidates are exactly the minimisers). T1 C09_sound: in an accepted run every '
     'routing / class-change decision is allowed by the specification read from the configuration: positive probability (TransitionMatrix, Probabilistic, '
     'class-change matrices), Direct/Leave/jockeying determined, Cycle in step, process-based routes followed in order, flexible routes within the subset '
     'and consumed per rule, JSQ/LB towards a listed destination minimal for the TRUE waiting line / population at that instant, priority = mapping[class] '
     'after every event. K1: observed runs with every router kind; strict mode also ties each choice to the model evaluated on the logged draw. '
     'T2 finish_service_route (Coq, Inv/Route.v, engine model stage 1 = transition matrices + class-change matrices): for every configuration with non-negative rows and every oracle whose uniform draws are > 0, at a service completion the new class has positive probability in the class-change row, the destination positive probability in the routing row (exit: positive remainder), and the customer is released or blocked towards exactly that destination. K2 on that slice.',
     'Mechanism clauses (exact index from the draw; counters = true lines) are correspondence obligations; open findings F-09a, F-09b are reported as '
     'KNOWN-FINDING. Probabilities are eighths (exact in binary64); one-ulp effects of float probabilities are outside the model.',
     technique='Coq theorems about a hand-written model of random_choice/JSQ + acceptor; conformance of real traces and stepwise correspondence of each decision with the model')
_add('C20',
     'Sub/Decimal.v (Coq, Z and Q, executable): decimals as (coefficient, exponent); add_k = exact sum at the smaller exponent rounded half-even to k '
     'significant digits (Python\'s context addition; a - b = a + (-b)); of_lit reads decimal literals. Proved: ndigits_le (the digit count used by the '
     'rounding is |n| < 10^k); add_exact / sub_exact (if the exact sum can be written with <= k significant digits, trailing zeros included, the result\'s '
     'value in Q is the exact sum); sum_exact + sum_ticks (no drift: a left fold of add_k over samples with <= d fractional digits, every partial sum of which '
     'has <= k digits in units of 10^-d, is the exact rational sum, and in ticks of 10^-d it is the integer sum - the exact-mode accumulation is the tick run); '
     'coincide + coincide_fold (any two orders and groupings of the same samples, no intermediate overflow, give == Decimals: mathematically simultaneous '
     'events are simultaneous); dec_eqb_spec; of_lit_value; add_exact_refuted / coincide_refuted (by vm_compute: at 3 digits 1.23+0.004 is rounded and two '
     'groupings of 1.00, 0.004, 0.004 differ - the precision hypothesis is not vacuous). T1 C20_sound: a record set accepted by the extracted acceptor has the '
     'discrete fields of the tick run and every date/duration is a Decimal with <= k digits whose value is exactly ticks*10^-d. '
     'K1: every generated integer-tick configuration (core incl. non-pre-emptive priorities, reneging, schedules, pre-emption, slotted, mixed) is run by the real '
     'engine with exact=k (k in 10..30) on the grids 1/4, 1/10 and 1/1000 and as a dyadic float run (= tick run); all records, the numbers of events and of '
     'uniform draws must agree (tie-rich inputs: ~58% of consecutive events are simultaneous). Object level: Python decimal (prec=k, ROUND_HALF_EVEN) vs extracted '
     'add_k / of_lit / running sums / comparison on random operands incl. exact ties, carries, cancellations, zeros, far exponents; real low-precision exact runs '
     'whose arrival dates are rounded at every step vs the model\'s running sums; kernel (vm_compute) vs extracted on the same cases.',
     'The clause "agrees with the float run up to rounding" is PARTIAL by design: binary rounding is outside the model; the float run on the same non-dyadic '
     'values is compared and reported (largest gap among structurally identical runs, number of runs whose event order diverged), never judged. Schedule/Slotted '
     'dates are computed by Ciw in binary floating point: configurations whose shift dates are not exact decimals within the horizon are discarded and counted. '
     'Open finding F-20c (float shift/slot dates compared raw with Decimal event dates, so a shift change at float 0.2 and an end of service at Decimal 0.2 do not '
     'coincide) is recognised by a frame-level trigger (a pseudo-tie before the first differing record, all dates still well-formed) and reported as KNOWN-FINDING; '
     'F-20a, F-20b, F-20d are fixed in /repo and their reverts are caught. The Gallina decimal model is tied to CPython\'s decimal module by differential testing, not by proof.',
     technique='Coq theorems about a hand-written executable model of Decimal addition + acceptor; differential testing against Python decimal and conformance of real exact-mode runs against the tick run')
_add('C11',
     'T1 C11_sound (Coq, induction over event lists of any length): on every accepted run the victim of a pre-emption is in service, of the lowest '
     'priority in service and the most recently started among those, and the pre-emptor has strictly higher priority; every interruption (priority '
     'pre-emption or pre-emptive shift change) is recorded, dated at the interruption, before the victim is served again or leaves; when served '
     'again it receives the remaining time (resume) or the same time again (restart); under resume the time in service summed over all stints of a '
     'visit equals the original requirement (telescoping identity PROVED from the local checks via an invariant, not checked); after every event no '
     'customer waits at a pre-emptive node while one of strictly lower priority is served. K1: observed runs (pre-emptive priorities with 2-3 levels, '
     'LIFO/SIRO, class changes while waiting, reneging, pre-emptive schedules and capacitated slots).',
     'Scope as in the property: nodes whose customers are never blocked (a run is cut at the first interruption of a blocked customer; nodes holding a '
     'blocked customer are skipped by the inversion clause). Open finding F-11a (reroute into the same node starts the pre-emptor twice) is '
     'reported as KNOWN-FINDING.')
_add('C14',
     'Loop.v (Coq): the loops of simulate_until_max_time / simulate_until_max_customers over an abstract engine, for every fuel: loop_time_post '
     '(exactly the events dated before T are executed; none before T remains) and loop_count_post (the count was below n before every executed event '
     'and has reached n at return). T1 C14_sound: every accepted call of the real engine returned without internal error, executed only events dated '
     'before T and left no scheduled date before T (recomputed from raw attributes), or ran exactly until the TRUE count (completed / finished / '
     'arrived / accepted, recomputed from customer creations, admissions and arrivals at the exit, not read from the engine counters) first reached n; '
     'customers in the nodes are left in place. K1: one or two calls per run, all four methods, horizons incl. 0, every feature region alone and combined; '
     'any exception in scope is a violation.',
     'Known crash families F-02a/F-02b (interruption of a BLOCKED customer) are matched by frame-level triggers and reported as KNOWN-FINDING. The abstract '
     'loop is tied to simulation.py by the conformance of every observed call, not by proof. Termination (liveness) is not claimed: calls cut by the frame '
     'limit are not judged.')
_add('C16',
     'Loop.v (Coq): until_time_split / until_time_split_unique: for every deterministic engine, any fuel, T1 <= T: a call of the '
     'simulate_until_max_time loop to T1 followed by a call to T executes the same events in the same order and returns the same state as one call '
     'to T, provided re-entering the loop does not disturb the state at the pause (pick r1 = r1: no tie between nodes there, the case in which '
     'find_next_active_node would consume a random draw). T1 C16_sound: an accepted pair of outcomes is equal on records, final clock, every '
     "server's busy and total time (incl. retired servers) and utilisation. K1: pairs of observed runs of the real engine on tie-free networks "
     '(single call vs 2-5 successive calls), compared exactly; pairs with coinciding events are discarded and counted.',
     'The wrap-up (server statistics) is outside the abstract loop and is covered by K1 only; F-16a and F-16b (provisional busy time kept after a '
     'pre-emptive shift change) were repaired in /repo. Values are dyadic (numerator/65536) so float arithmetic is exact.',
     technique='Coq theorem about a hand-written model of the main loop + exact comparison of split and unsplit runs of the real engine')
_add('C15',
     'Process.v (Coq): copy_reproducible: in the object-sharing model of a Python process (global random stream, Network objects with stateful '
     'members, Simulation objects; any deterministic engine), whatever was built and simulated before by copying constructors, "seed z; build a '
     'simulation of network n; run k events" yields exactly the outcome of a freshly built network; share_refuted (vm_compute): with a sharing '
     'constructor (Ciw before the repairs F-15a/c/d) an earlier simulation of the same Network changes the outcome. T1 C15_sound: every outcome of an '
     'accepted case equals the reference; strict mode: no stateful member is shared. K1: reference = seed; build; run in a FRESH interpreter, compared bit '
     'for bit (records, final clock, tracker history) with the same steps after earlier simulations, on a re-used Network, and next to a sibling simulation '
     'of the same Network that runs first; K2: object-identity walk over distributions (incl. nested composite ones), routers, schedules, generators.',
     'Partial by nature: the Mersenne Twister, numpy generator and copy.deepcopy are trusted library behaviour ("a reseeded generator repeats its stream"); '
     'the model cannot exhibit a library that seed() does not reset. The identity walk is a correspondence obligation (soft clause).',
     technique='Coq theorem about a hand-written object-sharing model + metamorphic bit-for-bit comparison against a fresh interpreter + object identity check')

# ---- T2 statements that landed after the entries above were written (appended to the level text) ----
CHECKS['C03']['text'] += (
    " T2 event_step_jrn / engine_journey / Jrn_means (Coq, Inv/Journey.v, 1 250 lines, on Inv/Blocking.v; engine model stage 1): for every configuration, every state + "
    "record history satisfying the invariant and every oracle, after any number of events the records of each customer chain (each names the node of the next as destination "
    "and ends when the next begins), the first is at the arrival node, baulk / rejection records are the customer's only record, a customer in node k has a last record naming k "
    "(or none and arrived there) and as many records as completed visits, and a customer is at the exit exactly when its last record names -1 or is a baulk / rejection. "
    "K2 ties the model to the code step by step; the extracted test jrn_b (sound) is evaluated on every real snapshot visited TOGETHER WITH the real cumulative record history "
    "and the real arrival nodes.")
CHECKS['C14']['text'] += (
    " T2 engine_horizon (Coq, Inv/Horizon.v on Inv/Clock.v; the loop of simulate_until_max_time over the ENGINE MODEL stage 1, an instance of Loop.v's abstract loop - "
    "run_until_is_loop): for every configuration, horizon T, state satisfying the invariants (Hzn = Clk + every node's next date is a lower bound of what it has pending) and oracle "
    "with non-negative service / inter-arrival draws, the loop executes only events due at the clock and dated before T, in non-decreasing order; when it stops on its test nothing "
    "whatsoever is scheduled before T; conservation holds at return (customers left in place). K2 ties the model to the code; hzn_b (sound) holds on every real snapshot visited.")
CHECKS['C16']['text'] += (
    " T2 run_until_split_eq (Coq, Inv/Horizon.v): over the ENGINE MODEL (stage 1) a call of the loop to T1 followed by a call to T >= T1 on the remaining draws IS the call to T, "
    "for every configuration, state and oracle.")
CHECKS['C06']['text'] += (
    " T2, second sentence (Coq, Inv/Admit.v, function level): rejected_iff_full / release_individual_admission - in the engine model an external arrival gets a rejection record (type 4, "
    "showing the population seen) and goes to the exit at once if and only if its node or the system is full at that instant; otherwise it baulks by its own decision (u < p for the population seen) "
    "or is counted as accepted and handed to the node's accept.")

# ---- T2 on the STAGE-2 engine model (coq/Engine/Engine2.v; statements in Properties/Cnn_stage2.v) ----
CHECKS['C01']['text'] += (
    " T2 on the STAGE-2 engine model (routers, reneging with jockeying, priority pre-emption incl. reroute, Schedules, slotted services, class change while waiting; "
    "Inv/Conserve2.v): event_step_conserves2 / run_many_conserves2 / WFx2_means / exit_is_permanent2 - conservation holds for EVERY configuration with no scope restriction and no "
    "hypothesis on the draws (also inside the regions of the open findings, whenever the run does not raise); wfx2_b (sound) is evaluated on every real snapshot the stage-2 K2 visits.")
CHECKS['C12']['text'] += (
    " T2 on the STAGE-2 engine model (Inv/Sched2.v, 1 460 lines): run_many_sched / SchedInv_means / shift_changes_follow_timetable / zero_scheduled - for every configuration and oracle, at every "
    "event boundary a scheduled node at generator position k has its next shift change at D k, c = C (k-1), exactly max(0, c) servers on duty with distinct ids, off-duty servers only under a non-pre-emptive "
    "schedule and only busy ones (overtime); a shift change is never overdue and runs exactly at its date; change_shift_spec, free_server_on_duty, no_free_server_when_zero (no service starts while zero servers "
    "are scheduled: there is no free server and no pre-emption is attempted); start_offduty_refuted is a closed witness of the open finding F-12d. sched_inv_b / next_inv_b (sound) hold on every real snapshot visited.")
CHECKS['C11']['text'] += (
    " T2 on the STAGE-2 engine model (Inv/Preempt2.v, 1 700 lines): preempt_victim_spec - the victim is in service, of strictly lower priority than the pre-emptor, of the lowest priority in service and the FIRST "
    "of the latest-started among those (Python's max); preempt_spec (one interruption record dated now, the victim's remaining time = end - now, the pre-emptor takes its server, nobody else changes); "
    "resume_gives_time_left / restart_gives_original / resample_gives_fresh; preempt_resume_telescope ((now - start) + time_left = requirement per stint) and run_many_SvcInv (service stamps stay consistent over any "
    "number of events; scope: no pre-emptive schedules / slots); clock_monotone_refuted / time_left_nonneg_refuted are closed witnesses of the open finding F-02a. Not covered: the reroute option of preempt.")
CHECKS['C13']['text'] += (
    " T2 on the STAGE-2 engine model (Inv/Renege2.v, 2 450 lines): release_individual_spec / never_baulks_at_0 / always_baulks_at_1 (an arrival baulks iff 4u < p4 * 2^53 for the population seen, is then at the exit "
    "at once with a baulk record and never enters); accept_stamps (reneging date = now + sampled patience), next_renege_selected (the customer a renege event removes waits, holds no server, and its date is now and minimal), "
    "renege_spec (record, jockeying destination, unblocking); run_many_RenInvF / RenInv_means (scope: no pre-emption of any kind; patience draws >= 0): every waiting customer's date is >= now - nobody outwaits its patience - "
    "and no renege is ever scheduled in the past; no_past_renege_refuted is a closed witness of the open finding F-02c outside that scope. RenInv_b (sound) holds on every real in-scope snapshot visited.")
CHECKS['C14']['text'] += (
    " T2, second half (Coq, Inv/HorizonCount.v): engine_count - the loop of simulate_until_max_customers over the ENGINE MODEL (counts: exit_completed / exit_n / a_created / a_accepted) executes an event only while "
    "the count is below n and stops after the FIRST event at which it reaches n (run_count_last), all four counts are monotone over events (run_many_count_mono), completed <= finished <= arrived, accepted <= arrived and "
    "finished - completed = arrived - accepted (count_means), customers are left in place; an instance of Loop.v's abstract count loop (run_count_is_loop); cinv_b (sound) holds on every real snapshot visited.")
CHECKS['C09']['text'] += (
    " T2 on the STAGE-2 engine model (Inv/Route2.v, 1 450 lines; statements in Properties/C09_stage2.v): one specification theorem per router kind - Probabilistic / TransitionMatrix (positive probability, or the exit "
    "with positive remainder; uniform draws > 0), Direct / Leave / jockeying Direct (the configured node, no draw), Cycle (the element at the stored position, which advances by one), JSQ / LoadBalancing (a listed destination "
    "minimal for the size the router READS - n_pop - n_insvc resp. n_pop - first minimal with tie_break order), ProcessBased (head of the remaining route, popped; then the exit), FlexibleProcessBased (member of the first remaining set, "
    "consumed per rule); next_node_for_allowed (every call of a routing object, all three modes), finish_service_route (released or blocked towards exactly the router's answer), change_customer_class_spec, "
    "class_change_while_waiting_spec; run_many_PrioInv / priority_corresponds_to_class (priority = mapping[current class] after any number of events, every configuration and oracle); allowed_refuted_at_zero_draw and "
    "zero_probability_transition_refuted are closed witnesses of the open finding F-09a. PrioInv_b and the configuration hypotheses are evaluated on every real snapshot visited.")
CHECKS['C10']['text'] += (
    " T2 on the STAGE-2 engine model (Inv/Samples2.v, 1 470 lines; Properties/C10_stage2.v): arrival_have_event_spec and negative_batch_stops_the_run as on stage 1; node_event_keeps_arrivals (no service completion, renege, shift change, "
    "slot or class change touches the arrival table); start_fresh_stamps (start = now, the NEXT service draw, end = start + draw, same end on the server); run_many_SvcInv (for EVERY configuration and oracle the stamps stay consistent over any number of events), "
    "stamps_persist (a service in progress is never altered: per event its stamps are unchanged, or it was started at this event, or cleared), release_writes_record (the record shows exactly the stamped duration); service_time_nonneg_refuted is a closed witness of the open finding F-02b.")
CHECKS['C07']['text'] += (
    " T2 on the STAGE-2 engine model (Inv/Blocking2.v, 1 850 lines; Properties/C07_stage2.v): run_many_len2 (counter = length, every configuration), run_many_blk2 / blk2_means (nobody is left blocked while the destination has space; scope: 'reroute' "
    "pre-emption only at nodes without capacity), event_step_fifo2 (per event blocked queues only lose heads or exactly one customer joins the end of a full node's queue; scope: no resume / restart / resample schedule or slot pre-emption); "
    "blk2_refuted_reroute is a closed witness of the NEW open finding F-07b (found by this proof, reproduced on the real engine), fifo_refuted_interrupted_blocked of F-02b.")
CHECKS['C06']['text'] += (
    " T2 on the STAGE-2 engine model (Inv/Blocking2.v; Properties/C06_stage2.v): run_many_cap2 / cap2_means - no node exceeds its capacity, in the scope without 'reroute' pre-emption and without jockeying into nodes of finite capacity; "
    "cap2_refuted_jockeying and cap2_refuted_reroute are closed witnesses that both moves enter a node without a capacity test (outside the property's rejection / blocking mechanisms).")
CHECKS['C08']['text'] += (
    " T2 on the STAGE-2 engine model (Inv/Order2.v, 1 810 lines; Properties/C08_stage2.v), function level: chosen_is_prescribed / none_chosen_none_waiting / fifo_no_overtaking (interrupted and slotted customers do not wait); every path that starts a service starts "
    "the choice at that moment: serve_with_starts (release), change_shift_starts and slotted_service_starts (by induction over the free servers / the slot size: each start is the choice at the state the previous starts left, interrupted customers first), "
    "accept_tail_starts, preempt_starts; accept_enqueues / class_change_moves_to_tail / queue_order_is_order_of_joining (queue order within a class is the order of joining THAT queue); fifo_by_arrival_date_refuted is a closed witness of the open finding F-08a, "
    "preemptor_started_twice_refuted of F-11a.")
CHECKS['C04']['text'] += (
    " T2 on the STAGE-2 engine model (Inv/Servers2.v, 3 800 lines; Properties/C04_stage2.v): run_many_srv2 / SrvInv2_means - with servers coming and going (Schedules, overtime, retired servers), interrupted and pre-empted customers: distinct server ids, "
    "busy iff holding a customer, server -> customer and customer -> server mutually inverse except for interrupted customers (who record a retired server and are on the interrupted list), nobody shares a server, at most |servers| in service - in the executable scope "
    "srv_scope (no 'reroute' option; no priority pre-emption at a node with a non-pre-emptive Schedule; class change while waiting only without priority pre-emption; no pre-emptive capacitated slots), INCLUDING the regions of F-02a / F-02b; "
    "link_refuted_F12d, link_refuted_F12a, link_refuted_reroute_preempt are closed witnesses outside it (the open findings F-12d, F-12a and the F-11a region).")
CHECKS['C05']['text'] += (
    " T2 on the STAGE-2 engine model (Inv/Servers2.v): run_many_nonidle2 / NonIdle2_means - at a finite non-slotted node, whenever a customer in the queues records no server every on-duty server is busy, over any number of events in the scope srv_scope "
    "(with Schedules, overtime, interruptions and pre-emption).")
CHECKS['C02']['text'] += (
    " T2 on the STAGE-2 engine model (Inv/Clock2.v, 2 500 lines; Properties/C02_stage2.v): event_step_clk2 / run_many_clk2 / run_many_monotone2 / Clk2_means - with the five kinds of node events (slot, shift change, end of service, class change, renege) "
    "and their tie order: nothing is scheduled in the past (arrival dates, server end dates, shift date = D k, slot date, waiting customers' reneging and class-change dates), the active node's date is the clock, and the clock never decreases, for draws >= 0 and "
    "well-formed timetables, in the executable scope Clock2.scope (no pre-emption of any kind; or pre-emption without the resume option and without class change while waiting, where victims are rerouted unless no node has reneging); "
    "clock_monotone_refuted_F02a / _F02b / _F02c are closed witnesses of the three open findings outside it (the clock goes 14 -> 9, 10 -> 6, 5 -> 2).")
CHECKS['C14']['text'] += (
    " T2 on the STAGE-2 engine model (Inv/HorizonCount2.v, 1 360 lines; Properties/C14_stage2.v): engine_count / run_count_last / run_many_count_mono (the count loop over Engine2 stops after the first event at which the count reaches n; the four counts are monotone; "
    "every configuration and oracle), count_means (completed <= finished <= arrived, accepted <= arrived, arrived - accepted <= finished - completed) and run_many_accounts (exact accounting through the renege / baulk / rejection records written); "
    "stage1_identity_refuted (with reneging to the exit the stage-1 identity finished - completed = arrived - accepted is false, as intended by Ciw); engine_until2, run_until2_split_eq and run_count_split_eq (pause / resume of both loops, no hypothesis at all).")
CHECKS['C18']['text'] += (
    " T2 on the (stage-1) ENGINE MODEL (Inv/Knot.v; Properties/C18_engine.v): knot_is_permanent / deadlock_is_permanent - if a non-empty set K of finite-server nodes is such that every server of every node of K holds a customer blocked towards a node of K "
    "(the structural definition of the property) then, for every configuration, every state satisfying SrvInv and Who, every oracle and ANY number of events, every node of K keeps exactly its server objects and each of those customers is still at its node with an "
    "untouched record: a structural deadlock is genuine; deadlocked_b_iff ties it to Sub/Deadlock.v's pruning computation. K3: Knot.deadlocked_b (extracted, dispatch 39) is evaluated on the real engine's snapshots of every simulate_until_deadlock run "
    "(encoded as engine-model states) and must agree with the verdict at that frame, and the hypotheses of the permanence theorem must hold there.")
CHECKS['C03']['text'] += (
    " T2 on the STAGE-2 engine model (Inv/Journey2.v, 3 880 lines; Properties/C03_stage2.v): event_step_jrn2 / engine_journey2 / Jrn2_means with the stage-2 record types (a visit-closing record = service, renege, or an interruption record with a destination; "
    "an interruption record without destination continues the visit: same node, same arrival date): first record at the arrival node, every closing record names the node of the next record and ends when that visit began, baulk / rejection records are the only record, "
    "a customer in node k has a last closing record naming k ending at its arrival date there, at the exit iff the last record names -1 or is a baulk / rejection - in the executable scope Journey2.scope2 (all routers, reneging + jockeying, blocking, non-pre-emptive "
    "schedules, slots, class change; priority pre-emption resume / restart / resample where no node has a capacity); journey_refuted_preempt_blocked is a closed witness of F-02a outside it (a service record naming node 3 directly followed by a record at node 2). "
    "jrn2_b (sound) is evaluated on every in-scope real snapshot visited TOGETHER WITH the real cumulative record history and arrival nodes (dispatch 40).")
CHECKS['C14']['text'] += (
    " T2 on the STAGE-2 engine model, first half (Inv/Horizon2.v on Clock2.v + HorizonCount2.v): engine_horizon2 / Hzn2_means - inside Clock2.scope the loop of simulate_until_max_time executes only events due at the clock and dated before T, in "
    "non-decreasing order; when it stops on its test NOTHING of any of the five event kinds is scheduled before T (arrival dates, every node's next date, server end dates, shift and slot dates, waiting customers' reneging and class-change dates); conservation at return; "
    "hzn2_b (sound) holds on every in-scope real snapshot visited.")
CHECKS['C17']['text'] += (
    " T2 on the (stage-1) ENGINE MODEL (Inv/TrackerInc.v, 1 970 lines; Properties/C17_engine.v): run_many_trackers / run_many_class_matrix - for SystemPopulation, NodePopulation, NodePopulationSubset, GroupedNodePopulation, NaiveBlocking and NodeClassMatrix: "
    "the tracker's own incremental updates (change_state_accept / block / release / classchange, written as Python writes them), folded over the calls the engine makes during any number of events, give exactly the TRUE state computed from the configuration "
    "(who queues where, class served in, blocked flag), for every configuration, every state satisfying the invariant TInv (Blocking.Who + an unblocked queued customer has previous_class = customer_class) and every oracle; never_negative; "
    "sub_dup_refuted / grp_dup_refuted: a node listed twice in observed_nodes / in two groups breaks it (a user-parameter issue). MatrixBlocking is not covered. K3: the ghost call lists of the model (TrackerInc.calls_event_step, dispatch 41) are compared, event by event, "
    "with the calls the real engine makes to its tracker (logged by a behaviour-free subclass), and tinvc_b is evaluated on the same real snapshots.")
CHECKS['C02']['text'] += (
    " Clock2r.v (partial, named so): the same clock invariant with the resume option of pre-emptive capacitated slots, in the scope without queue capacities (nobody is ever blocked, every stored time_left >= 0): event_step_clk2r_partial / run_many_clk2r_partial; "
    "resume for priority pre-emption and pre-emptive Schedules is NOT covered (it needs the server <-> customer link inside the event).")
CHECKS['C11']['text'] += (
    " Inversion2.v (3 270 lines): run_many_invJ / run_many_noinv / NoInv_means - the FIRST clause of the property as an invariant over runs: at every node with a pre-emptive priority option and fixed servers, after any number of events no customer without a server "
    "waits while a customer of strictly larger priority number holds a server, nobody waits while a server is idle, queue index = priority, in the executable scope inv_scope (no capacities; priority pre-emption only at fixed-server nodes, not reroute; no pre-emptive "
    "Schedules / capacitated slots) - INCLUDING class change while waiting, class-change matrices, reneging, all routers, LIFO / SIRO; noinv_refuted_preemptive_schedule and noinv_refuted_overtime are closed witnesses of the two NEW open findings F-11c and F-11d "
    "(found by this proof, reproduced on the real engine, corpus), noinv_refuted_blocked_class_change of the F-02a family.")
CHECKS['C03']['text'] += (
    " Journey2s.v (3 070 lines) extends the stage-2 journey theorems to pre-emptive Schedules (resume / restart / resample; no capacities then): event_step_jrn2s / engine_journey2s / Jrn2s_means / Jrn2s_int_means (interrupted customers stay in their queue, "
    "their interruption record continues the visit, the restart writes no record); pre-emptive capacitated slots and the reroute option are not covered. The real-history check (dispatch 40) uses this wider scope.")
CHECKS['C17']['text'] += (
    " TrackerMB.v (1 370 lines) completes it with MatrixBlocking: run_many_mb / mb_means / mb_never_negative - with a ghost global order `ord` of the currently blocked customers (each blocked queue is the sub-sequence of ord towards that node), Python's update "
    "(push increment, pop element 0 of the cell, shift every larger number down) folded over the calls of any run gives exactly the matrix of positions in ord, the numbers in the cells are 1..increment-1 without gap or repetition.")
CHECKS['C11']['text'] += (
    " Preempt2r.v (1 020 lines): the reroute option, function level - preempt_reroute_spec / preempt_reroute_record / preempt_reroute_dest / preempt_reroute_to_other_node: one interruption record WITH the destination the rerouting router allows, the victim "
    "leaves its node (no service record, no unblocking) and is handed to the destination's accept or the exit, the pre-emptor starts on the victim's server with the service time its marker prescribes, nobody else at the node changes; "
    "reroute_same_node_refuted is a closed witness of the open finding F-11a (the destination is the node itself).")
CHECKS['C12']['text'] += (
    " Slot2.v (2 500 lines), the second half of the property on the STAGE-2 engine model: run_many_slotinv / run_many_slotnext / slots_follow_timetable (every configuration: a slotted node at position k has its next slot at slotdate k, never overdue, a slot event "
    "runs exactly at its date and moves the position by one, no other event does); slot_event_starts / uncapacitated_slot / capacitated_after_slot (at most the slot size starts per slot; capacitated: at most max(size - in service, 0) starts, and at most the size in service "
    "right after a pre-emptive capacitated slot when the counter does not over-count); starts_only_in_slot / run_between_slots (between its slot events nobody starts or restarts service at a slotted node; scope: no reroute option, no pre-emptive Schedule / slot at OTHER nodes); "
    "capacity_after_nonpreemptive_slot_refuted (a NON-pre-emptive capacitated slot of size 1 after one of size 2 leaves two in service: by design).")
CHECKS['C20']['text'] += (
    " T2 on BOTH ENGINE MODELS (the tie of the decimal theorems to the engine): Inv/DateSum.v (stage 1; Properties/C20_engine.v) - event_step_ds / run_many_ds / records_ds: every date the engine holds or records "
    "(clock, arrival table, next event dates, servers' end dates, every customer's and every record's dates, service times) is a SUM OF SAMPLED VALUES (Sum D, D = the inter-arrival and service samples drawn so far; batch sizes and uniforms provably never reach a date), "
    "every duration (waiting time, time blocked, busy time) a difference of two such sums, and record_means: r_wait = r_sst - r_arr, r_send = r_sst + r_stime, r_blocked = r_exit - r_send - for every configuration, every oracle, any number of events, no hypothesis on the draws; "
    "now_is_a_sum connects to Decimal.sum_exact; grid / run_many_grid: if every sample is a multiple of g so is every date and duration (no drift). Inv/DateSum2.v (stage 2; Properties/C20_stage2.v) - event_step_grid / run_many_grid / records_grid / no_drift / "
    "dates_in_generated_group: with routers, reneging, pre-emption (resume stores end - now and adds it back), Schedules (the generator off + b[k mod n] + (k / n) * cycle is the only multiplication of a date), slots and class change while waiting, every date and duration of every state "
    "and record lies in the additive group generated by the samples and the timetable constants (= the multiples of their gcd), for EVERY configuration; off_grid_timetable_leaves_grid / off_grid_sample_leaves_grid show both hypotheses are needed. "
    "K: each real exact run is accompanied by a run of the same generated configuration with every time value multiplied by g in {3, 7, 10, 11} under observation: K2 (model stepped from the implementation's snapshots and draws, date slice) and the extracted "
    "DateSum.ds_b / DateSum2.ongrid_b, logon_b, grid_b, drawson_b (dispatch 43 / 42) on every real snapshot and record: a date that is not a multiple of g is clause 220 with the configuration as the failing input.")
CHECKS['C03']['text'] += (
    " Journey2r.v (1 850 lines) extends the journey theorems to the `reroute` pre-emption option (scope2r: no capacities with pre-emption, the rerouting router never answers the node itself or another reroute node, no process-based routes with reroute): "
    "event_step_jrn2r / engine_journey2r / reroute_record_followed (the interruption record WITH destination d is followed by a visit record at d arriving at the record's exit date); f11a_not_a_witness / reroute_cycle_not_a_witness: F-11a double starts do not break the journey; "
    "slotted_service_journey_partial (function level) and jrn2_not_kept_by_preemptive_slot for pre-emptive capacitated slots (not covered at run level). The real-history check (dispatch 40) now also runs inside scope2r.")
CHECKS['C18']['text'] += (
    " Knot2.v (1 640 lines; Properties/C18_stage2.v) - the STAGE-2 engine model: knot2_is_permanent / knot2_is_permanent_in_scope / deadlock_is_permanent2 / deadlocked2_b_iff: a structural knot K is permanent (same server objects, same customers, untouched records, any number of events, "
    "every oracle) whenever the nodes OF K have fixed servers, no pre-emptive priorities and no reneging - whatever the other nodes, the routers, jockeying, class change do; and each excluded feature is REFUTED by a closed witness: knot2_refuted_priority_preempt (F-02a), "
    "knot2_refuted_preemptive_schedule (F-02b), knot2_refuted_schedule and knot2_refuted_reneging - the two NEW open findings F-18b and F-18a (a non-pre-emptive Schedule brings new servers / Node.renege ends in release_blocked_individual: the reported deadlock dissolves), both reproduced on the real engine. "
    "K: 'after' jobs continue the real simulation after simulate_until_deadlock returned (regions deadlock, deadlock_renege, deadlock_sched): no customer of the reported knot may ever move (clause 96; F-18a / F-18b are reported as KNOWN-FINDING through their triggers only), and the extracted "
    "knot_scope / knot2_b / noscope_b (dispatch 44) are evaluated on the real snapshot at the report (hypotheses) and on later real snapshots (conclusion).")
CHECKS['C02']['text'] += (
    " Clock2p.v (2 300 lines): the resume option of PRIORITY pre-emption at event level - event_step_clk2p_tiny / run_many_clk2p_tiny / run_many_monotone2p_tiny (named _tiny / _partial: scope `tiny` = fixed servers, no reneging, no capacities, no reroute, no class change while waiting; "
    "any routing, discipline, server priority function, pre-emption none / resume / restart / resample) with the invariant Clk2pt = Clock2r's clauses + LinkB, the DATE link (every held customer's record names its server and node and has an end date e with server end date d <= e, so now <= d <= e and the time left "
    "stored by resume is >= 0); event_step_linkb / run_many_linkb (the link alone, no hypothesis on draws); clk2r_not_inductive_under_resume_refuted (without the link the clock invariant is not inductive under resume: time_left = -2, clock 8 -> 6 from a non-reachable state); function level for every configuration: "
    "preempt_tleft_partial, interrupt_service_tleft_partial, resume_end_not_past_partial. Pre-emptive Schedule resume is proved at function level only. clk2pt_b is evaluated on every real snapshot in the scope (bit clk2p).")
CHECKS['C17']['text'] += (
    " TrackerInc2.v (2 530 lines; Properties/C17_stage2.v) - the STAGE-2 engine model: an instrumented copy of the engine (the engine monad plus a writer of tracker calls; er_event_step proves that erasing the calls gives back Engine2.event_step, so the ghost "
    "call list belongs to the real model run) with a call at every site node.py has one (accept, block_individual, release incl. release(reroute=True) from preempt / interrupt_service, renege -> change_state_renege, class change while waiting); "
    "event_step_trackers2 / run_many_trackers2 / never_negative2 / run_many_subset_grouped2: SystemPopulation, NodePopulation, NodePopulationSubset, GroupedNodePopulation folded over the calls of any run give the TRUE populations, for EVERY configuration (only Idx), "
    "every oracle; run_many_rowsums2 (row sums of NaiveBlocking / NodeClassMatrix = populations, even inside the defect regions); NaiveBlocking: event_step_naive_blocking2_partial / run_many_naive_blocking2_partial in the scope without pre-emptive "
    "resume/restart/resample Schedules and slots, given that end-of-service / reneging candidates are not blocked (assumed per event: named _partial), and naive_blocking_refuted_F02a / _F02b, class_matrix_refuted_F02a: closed witnesses that inside the F-02a / F-02b regions "
    "the trackers go NEGATIVE ((-1,3) against a true (0,2)). K3 on stage 2: the model's call list (dispatch 45) equals the calls the real engine makes to its tracker, event by event, on every out-of-stage-1 configuration. NodeClassMatrix is also run with a custom class_ordering.")
CHECKS['C03']['text'] += (
    " Journey2t.v (1 035 lines, partial and named so): pre-emptive capacitated slots - the invariant SlotInt for the interrupted lists of slotted nodes (a listed customer is in a queue of that node, keeps its server mark, has no service start or end date), "
    "its preservation by slotted_service / interrupt_service / begin_interrupted_individuals_service (function level), event_step_jrn2t_partial / run_slots_jrn2t_partial (the journey invariant Jrn2t over SLOT EVENTS, any number of them), Jrn2t_means, Jrn2t_int_means; "
    "the all-events run theorem with pre-emptive capacitated slots is not proved (it needs a fork of Journey2s's recursive core).")
CHECKS['C17']['text'] += (
    " TrackerInc2b.v (2 580 lines) completes it: run_many_naive_blocking2 - NaiveBlocking folded over the calls of ANY run gives the true (unblocked, blocked) counts, no per-event hypothesis, in scope_nb = Journey2r.scope2r (all routers, reneging, jockeying, blocking, non-pre-emptive "
    "Schedules, slots, class change; priority pre-emption incl. reroute where no node has a capacity) with the invariant Inv2 = the journey invariant Jrn2 (tested with the real history by dispatch 40); run_many_class_matrix2 - NodeClassMatrix per-class counts "
    "(entry (j, c) = customers of node j whose previous_class is c) for configurations without class-change times, _partial with them (per-event hypothesis CandQ1); TInvS (an unblocked customer has previous_class = customer_class) preserved, and evaluated on every real snapshot in scope; "
    "class_matrix_refuted_F02b: inside the F-02b region the tracker holds (2, 0) against a true (0, 2).")
CHECKS['C02']['text'] += (
    " Clock2s.v (2 440 lines) widens Clock2p's scope to infinite-server nodes, NON-pre-emptive Schedules (servers come and go, overtime, ids never reused) and non-interrupting slots: event_step_clk2s_partial / run_many_clk2s_partial / run_many_monotone2s_partial / Clk2s_means "
    "(scope_s: no capacities, no reneging, no class change while waiting, no reroute; priority pre-emption none / resume / restart / resample anywhere); fx_F12d_inside: the F-12d run is inside the scope and keeps the clock invariant (its defect is a customer never served); "
    "interrupt_resume_clock_partial (function level) for pre-emptive Schedule resume, whose event-level proof is designed in the file header but not done. clk2s_b is evaluated on every real snapshot in scope_s (bit clk2s).")
CHECKS['C17']['text'] += (
    " TrackerInc2c.v (280 lines, partial): event_step_fresh (every configuration: after an event the selection fields of a class-change event are the node's recorded candidate) and candq1_of_ncciq reduce the per-event hypothesis CandQ1 of the NodeClassMatrix theorems "
    "to NcciQ (the recorded class-change candidate of a node is in its queues) on the states between events; NcciQ itself is not shown invariant (run_many_class_matrix2c_partial).")

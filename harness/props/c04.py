"""C04 server exclusivity and utilisation: projection."""
from framework import Prop
from obs import SCALE


def tracked(cfg):
    ps = cfg.get('ps') or [False] * cfg['n']
    out = []
    for j, s in enumerate(cfg['servers']):
        if ps[j] or s == 'inf':
            continue
        if isinstance(s, dict) and s['kind'] == 'slotted':
            continue
        out.append(j + 1)
    return out


def node_part(s, j, det):
    n = s['nodes'][j - 1]
    srv = [[x['id'], x['cust'] or 0, x['busy'], x['offduty']] for x in (n['servers'] or [])]
    cust = []
    for q in n['queues']:
        for i in q:
            ind = s['inds'][i]
            if ind['server'] is not None and ind['server'] >= 1 and not ind['interrupted']:
                cust.append([i, ind['server']])
    return [j, n['c'], srv, cust, sorted(det.get(j, []))]


def detached(cev):
    d = {}
    for e in cev:
        if e[0] in ('Release', 'Interrupt', 'Preempt'):
            d.setdefault(e[1], []).append(e[2])
    return d


class C04(Prop):
    id = 'C04'
    k2_mask = {('server', 'id'), ('server', 'cust'), ('server', 'busy'), ('server', 'busy_time'), ('server', 'total_time'), ('server', '*'), ('ind', 'server'), ('ind', 'sst'), ('rec', 'server')}      # the slice of the engine state / records this property reads (DESIGN 7, table of slices)
    k2_frames = 40
    k2_invs2 = {'srv2'}         # the stage-2 T2 invariants (Inv/AllRun2.invs2_b) this property answers for on real snapshots
    k2_invs = {'srv'}          # the T2 invariants (Inv/AllRun.invs_b) this property answers for on real snapshots
    num = 4
    regions = {'quick': [('core', 100), ('block', 140), ('routers', 40), ('renege', 40), ('sched', 60), ('sched_block', 60),
                         ('preempt', 50), ('schedpre', 40), ('dyn', 30), ('all', 40), ('spf', 30), ('spf_sched', 50), ('spf_block', 30), ('sched_split', 70), ('core_split', 30), ('schedpre_block', 120), ('schedpre_tandem', 60)]}
    rule = ('one case = one observed run; non-trivial = some server served >= 3 customers and one of them was blocked for a '
            'positive time; distinct = distinct configuration hashes')
    clause_text = {30: 'server/customer attachment is not a bijection, busy flag wrong, or on-duty count != c',
                   31: 'a server lost its customer without a release / interruption of that customer',
                   32: 'two service intervals of one server id overlap (or start > exit)',
                   33: 'busy/total time of a server or the reported utilisation disagrees with the time attached to customers'}

    def project(self, tr):
        cfg = tr.cfg
        nodes = tracked(cfg)
        frames = [[node_part(tr.init, j, {}) for j in nodes]]
        recs = []
        for f in tr.frames:
            det = detached(f['cev'])
            frames.append([node_part(f['snap'], j, det) for j in nodes])
            for e in f['cev']:
                if e[0] == 'Record' and e[3]['type'] in (0, 1) and isinstance(e[3]['server_id'], int) \
                        and e[3]['server_id'] >= 1 and e[1] in nodes and isinstance(e[3]['service_start_date'], int):
                    recs.append([e[1], e[3]['server_id'], e[3]['service_start_date'], e[3]['exit_date']])
        fins = []
        runs = cfg['run'] if isinstance(cfg['run'][0], list) else [cfg['run']]
        run = runs[-1] if all(r[0] == 'time' for r in runs) else ['other']
        pre = cfg.get('preempt') and any(cfg['preempt'])
        if (run[0] == 'time' and not tr.exc and not tr.stopped and getattr(tr, 'run_ends', None) and not pre):
            T = run[1]
            fin = tr.run_ends[-1]['final']
            utils = tr.run_ends[-1]['util']
            gone = {}
            for f in tr.frames:
                for e in f['cev']:
                    if e[0] == 'ServerGone':
                        gone.setdefault(e[1], []).append(e[2:])
            for j in nodes:
                s = cfg['servers'][j - 1]
                sched = isinstance(s, dict) and s['kind'] == 'sched' and not s.get('pre')
                if not ((isinstance(s, int) and s >= 1) or sched):
                    continue
                n = fin['nodes'][j - 1]
                sv = []
                ok = True
                # servers that went off duty for good: their books as filed at that instant
                for (sid, st, bt, tt, at) in gone.get(j, []):
                    if not all(isinstance(x, int) for x in (sid, st, bt, tt, at)):
                        ok = False
                        break
                    sv.append([sid, st, bt, tt, 0, at])
                for x in (n['servers'] or []):
                    partial = 0
                    if x['busy'] and x['cust'] is not None:
                        st = fin['inds'][x['cust']]['service_start_date']
                        partial = T - st if isinstance(st, int) else -1
                    if not isinstance(x['start'], int) or not isinstance(x['busy_time'], int):
                        ok = False
                        break
                    sv.append([x['id'], x['start'], x['busy_time'], x['total_time'] if isinstance(x['total_time'], int) else -1, partial, T])
                if not ok:
                    continue
                bs = sum(x[2] for x in sv)
                ts = sum(x[3] for x in sv)
                u = utils[j - 1]
                if sched and (n.get('all_busy') is not None) and (sum(n['all_busy']) + sum(x['busy_time'] for x in n['servers']) != bs
                                                                  or sum(n['all_total']) + sum(x['total_time'] for x in n['servers']) != ts):
                    bs = -1     # what the node filed differs from the servers' own books
                # the reported float must be exactly the quotient of the exact sums (dyadic grid => exact)
                if u is None or (ts > 0 and u[2] is not None and u[2] == (bs / SCALE) / (ts / SCALE)) or (ts <= 0 and u[2] is None):
                    fins.append([j, T, sv, bs, ts])
                else:
                    fins.append([j, T, sv, -1, ts])
        return [frames, recs, fins]

    def nontrivial(self, tr):
        cnt = {}
        blocked = False
        for f in tr.frames:
            for e in f['cev']:
                if e[0] == 'Record' and e[3]['type'] == 0 and isinstance(e[3]['server_id'], int):
                    k = (e[1], e[3]['server_id'])
                    cnt[k] = cnt.get(k, 0) + 1
                    if isinstance(e[3]['time_blocked'], int) and e[3]['time_blocked'] > 0:
                        blocked = True
        return blocked and any(v >= 3 for v in cnt.values())

    def sample(self, tr):
        p = self.project(tr)
        return {'frames': len(p[0]), 'frame_10': p[0][min(10, len(p[0]) - 1)], 'records_head': p[1][:5], 'finals': p[2][:2],
                'region': tr.cfg.get('region'), 'gen_seed': tr.cfg.get('gen_seed')}

    def stats(self, tr):
        return {'server_records': sum(1 for f in tr.frames for e in f['cev'] if e[0] == 'Record' and e[3]['type'] in (0, 1))}

    def explain(self, tr, v):
        if v[0] != 'R':
            return None
        k = v[1]
        if 1 <= k <= len(tr.frames):
            f = tr.frames[k - 1]
            return {'frame': k, 'label': f['label'], 'cev': [e[:4] for e in f['cev']][:30]}
        p = self.project(tr)
        return {'frame': k, 'finals': p[2], 'recs_tail': p[1][-6:]}


PROP = C04()

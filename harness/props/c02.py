"""C02 causal monotone time + record arithmetic: projection onto the acceptor's slice."""
from framework import Prop

RFIELDS = ('arrival_date', 'waiting_time', 'service_start_date', 'service_time', 'service_end_date', 'time_blocked',
           'exit_date')


def node_reneging(cfg, j):
    return cfg.get('ren') is not None and any(cfg['ren'][c][j] is not None for c in range(cfg['k']))


def sched_dates(s, cfg):
    out = []
    for key in sorted(s['arr']['dates']):
        v = s['arr']['dates'][key]
        if v is not None:
            out.append((1, v))
    dyn = cfg.get('cct') is not None and any(x is not None for row in cfg['cct'] for x in row)
    for j, n in enumerate(s['nodes']):
        fin = n['c'] != 'inf'
        ren = node_reneging(cfg, j)
        for q in n['queues']:
            for i in q:
                ind = s['inds'][i]
                if ind['service_end_date'] is not None and not ind['blocked']:
                    out.append((2, ind['service_end_date']))
                if ind['server'] is None and fin:
                    if ren and ind['reneging_date'] is not None:
                        out.append((3, ind['reneging_date']))
                    if dyn and ind['class_change_date'] is not None:
                        out.append((4, ind['class_change_date']))
        if n['sched'] is not None:
            d = n['sched']['next_slot'] if n['slotted'] else n['next_shift']
            if d is not None:
                out.append((5, d))
    return out


def recs_of(cev):
    out = []
    for e in cev:
        if e[0] == 'Record':
            d = e[3]
            out.append([d['type']] + [d[f] for f in RFIELDS])
    return out


class C02(Prop):
    id = 'C02'
    k2_mask = {('top', 'now'), ('top', 'next_active'), ('arr', 'dates'), ('arr', 'next_date'), ('server', 'next_end'), ('node', 'next_date'), ('node', 'next_inds'), ('ind', 'send'), ('ind', 'sst'), ('ind', 'arr'), ('ind', 'exit'), ('ind', 'blocked'), ('rec', 'arr'), ('rec', 'wait'), ('rec', 'sst'), ('rec', 'stime'), ('rec', 'send'), ('rec', 'blocked'), ('rec', 'exit'), ('rec', '*')}      # the slice of the engine state / records this property reads (DESIGN 7, table of slices)
    k2_frames = 40
    k2_invs2 = {'clk2', 'clk2r', 'clk2p', 'clk2s'}         # the stage-2 T2 invariants (Inv/AllRun2.invs2_b) this property answers for on real snapshots
    k2_invs = {'clk'}          # the T2 invariants (Inv/AllRun.invs_b) this property answers for on real snapshots
    num = 2
    regions = {'quick': [('core', 70), ('block', 70), ('routers', 40), ('renege', 50), ('preempt', 50), ('sched', 40),
                         ('sched_block', 30), ('schedpre', 40), ('slotted', 40), ('slotted_pre', 40), ('renege_schedpre', 40), ('dyn', 40), ('all', 50),
                         ('preempt_block', 25), ('schedpre_block', 25), ('schedpre_tandem', 40), ('core_mix', 50), ('block_mix', 30), ('dyn_reroute', 80)]}
    rule = ('one case = one observed run; non-trivial = the run had two events at the same instant and a blocked '
            'customer or a restart after interruption; distinct = distinct configuration hashes')
    clause_text = {1: '(b) event did not run at the minimum of the scheduled dates', 2: '(c) a date scheduled in the past',
                   3: '(d) record arithmetic / ordering'}

    def project(self, tr):
        cfg = tr.cfg
        out = [[tr.init['now'], sched_dates(tr.init, cfg), []]]
        for f in tr.frames:
            out.append([f['now'], sched_dates(f['snap'], cfg), recs_of(f['cev'])])
        return out

    def nontrivial(self, tr):
        tie = any(a['now'] == b['now'] for a, b in zip(tr.frames, tr.frames[1:]))
        special = any(e[0] in ('Block', 'RestartInterrupted', 'Preempt') for f in tr.frames for e in f['cev'])
        return tie and special

    def sample(self, tr):
        p = self.project(tr)
        return {'frames': len(p), 'frame_5': p[min(5, len(p) - 1)], 'region': tr.cfg.get('region'),
                'gen_seed': tr.cfg.get('gen_seed')}

    def stats(self, tr):
        return {'records': sum(1 for f in tr.frames for e in f['cev'] if e[0] == 'Record'),
                'ties': sum(1 for a, b in zip(tr.frames, tr.frames[1:]) if a['now'] == b['now'])}

    def explain(self, tr, v):
        if v[0] != 'R':
            return None
        k = v[1]
        f = tr.frames[k - 1] if k >= 1 else None
        return {'frame': k, 'label': f['label'] if f else None, 'now': f['now'] if f else None,
                'cev_kinds': [e[0] for e in f['cev']][:40] if f else None, 'info': v[3]}


PROP = C02()

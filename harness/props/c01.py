"""C01 customer conservation: projection of a Trace onto the acceptor's slice."""
from framework import Prop


def frame(s):
    return [s['arr']['created'],
            [[i for q in n['queues'] for i in q] for n in s['nodes']],
            s['exit']['ids'],
            [n['pop'] for n in s['nodes']],
            s['exit']['n']]


class C01(Prop):
    id = 'C01'
    k2_mask = {('node', 'pop'), ('node', 'queues'), ('node', 'id'), ('node', '*'), ('top', 'exit_ids'), ('top', 'exit_n'), ('arr', 'created'), ('ind', 'node'), ('ind', '*')}      # the slice of the engine state / records this property reads (DESIGN 7, table of slices)
    k2_frames = 40
    k2_invs2 = {'wfx2'}         # the stage-2 T2 invariants (Inv/AllRun2.invs2_b) this property answers for on real snapshots
    k2_invs = {'wfx'}          # the T2 invariants (Inv/AllRun.invs_b) this property answers for on real snapshots
    num = 1
    regions = {'quick': [('core', 60), ('block', 60), ('routers', 40), ('renege', 40), ('preempt', 40), ('sched', 40),
                         ('schedpre', 30), ('slotted', 30), ('dyn', 30), ('ps', 30), ('all', 60), ('preempt_block', 20),
                         ('sched_block', 20), ('core_mix', 30), ('renege_jockey', 50), ('batch_mix', 20)],
               }
    rule = ('one case = one observed run of the real engine on a generated network; non-trivial = the run had a '
            'transfer between two service nodes and at least one of {unblocking, batch>1, rejection, renege, reroute}; '
            'distinct = distinct configuration hashes')

    def project(self, tr):
        return [frame(tr.init)] + [frame(f['snap']) for f in tr.frames]

    def nontrivial(self, tr):
        transfer = special = False
        for f in tr.frames:
            for e in f['cev']:
                k = e[0]
                if k == 'Release' and e[3] != -1:
                    transfer = True
                if k in ('Reject', 'Renege') or (k == 'Release' and (e[5] or e[4])) or (k == 'Batch' and e[3] > 1):
                    special = True
        return transfer and special

    def sample(self, tr):
        p = self.project(tr)
        return {'frames': len(p), 'last_frame': p[-1], 'region': tr.cfg.get('region'), 'gen_seed': tr.cfg.get('gen_seed')}

    clause_text = {1: 'created counter negative', 2: 'ids in nodes+exit are not a duplicate-free enumeration of 1..N',
                   3: 'a node counter differs from the number of customers there', 4: 'exit counter differs',
                   5: 'a customer left the exit node / exit order changed', 6: 'created counter decreased'}


PROP = C01()

"""C11 pre-emptive priorities and resume/restart/resample bookkeeping: projection onto the event list of coq/Acc/C11.v."""
from framework import Prop

OPT = {'resume': 1, 'restart': 2, 'resample': 3, 'reroute': 4}


def events(tr):
    cfg = tr.cfg
    ps = cfg.get('ps') or [False] * cfg['n']
    pre = cfg.get('preempt') or [False] * cfg['n']
    out, meta = [], []
    stats = {'preemptions': 0, 'victim_choices_among_2plus': 0, 'shift_interruptions': 0, 'resumes': 0, 'restarts': 0, 'resamples': 0,
             'reroutes': 0, 'noinv_checks': 0, 'truncated_blocked_victim': 0}
    ninter = {}
    pend = {}
    truncated = False
    for fi, f in enumerate(tr.frames):
        now = f['now']
        cev = f['cev']
        for idx, e in enumerate(cev):
            k = e[0]
            if k == 'Start':
                node, ind, st = e[1], e[2], e[3]
                if ps[node - 1] or not isinstance(st, int):
                    continue
                end = None
                for x in cev[idx + 1:]:
                    if x[0] == 'EndSet' and x[1] == ind:
                        end = x[2]
                        break
                    if x[0] == 'Start' and x[2] == ind:
                        break
                if isinstance(end, int):
                    out.append([1, ind, node, st, end - st]); meta.append(fi + 1)
                    if ind in pend:
                        stats[{1: 'resumes', 2: 'restarts', 3: 'resamples'}.get(pend.pop(ind), 'reroutes')] += 1
            elif k == 'Preempt':
                node, v, by, ctx, vblocked, vend, vst, vprio, bprio, vstart = e[1:11]
                if vblocked or not isinstance(vend, int) or not isinstance(vstart, int):
                    truncated = True
                    stats['truncated_blocked_victim'] += 1
                    break
                c = [[x[1], x[2], x[3]] for x in ctx if x[1] is not None and isinstance(x[3], int)]
                o = OPT.get(pre[node - 1], 0)
                out.append([2, node, v, by, now, vprio, bprio, vstart, vend, o, c]); meta.append(fi + 1)
                stats['preemptions'] += 1
                if len(c) >= 2:
                    stats['victim_choices_among_2plus'] += 1
                ninter[v] = ninter.get(v, 0) + 1
                pend[v] = o
            elif k == 'Interrupt':
                node, ind, blocked, end, start = e[1:6]
                if ps[node - 1]:
                    continue
                if blocked or not isinstance(end, int) or not isinstance(start, int):
                    truncated = True
                    stats['truncated_blocked_victim'] += 1
                    break
                sv = cfg['servers'][node - 1]
                o = OPT.get(sv.get('pre'), 0) if isinstance(sv, dict) else 0
                out.append([2, node, ind, 0, now, 0, 0, start, end, o, [[ind, 0, start]]]); meta.append(fi + 1)
                stats['shift_interruptions'] += 1
                ninter[ind] = ninter.get(ind, 0) + 1
                pend[ind] = o
            elif k == 'Record':
                r = e[3]
                node, ind = e[1], e[2]
                if ps[node - 1]:
                    continue
                if r['type'] == 1:
                    out.append([3, ind, node, r['exit_date'] if isinstance(r['exit_date'], int) else -1, now]); meta.append(fi + 1)
                    if r['destination'] != 'nan' and r['destination'] is not None:
                        out.append([5, ind]); meta.append(fi + 1)
                        pend.pop(ind, None)
                elif r['type'] == 0:
                    if all(isinstance(r[x], int) for x in ('service_start_date', 'service_time', 'service_end_date')):
                        out.append([4, ind, node, r['service_start_date'], r['service_time'], r['service_end_date']]); meta.append(fi + 1)
                    out.append([5, ind]); meta.append(fi + 1)
                elif r['type'] == 2:
                    out.append([5, ind]); meta.append(fi + 1)
        if truncated:
            break
        s = f['snap']
        for j, n in enumerate(s['nodes']):
            if not pre[j] or n['c'] == 'inf' or ps[j] or n['slotted']:
                continue
            if any(s['inds'][i]['blocked'] for q in n['queues'] for i in q):
                continue            # scope: nodes whose customers are never blocked (a blocked customer holds its server)
            w, sv = [], []
            for q in n['queues']:
                for i in q:
                    ind = s['inds'][i]
                    if ind['service_start_date'] is None:
                        if not ind['interrupted']:
                            w.append(ind['prio'])
                    else:
                        sv.append(ind['prio'])
            out.append([6, j + 1, w, sv]); meta.append(fi + 1)
            stats['noinv_checks'] += 1
    nt = any(v >= 2 for v in ninter.values()) and stats['victim_choices_among_2plus'] >= 1
    return out, meta, stats, nt


class C11(Prop):
    id = 'C11'
    num = 11
    # K2: the slice of the (stage-2) engine model's state / records this property reads
    k2_mask = {('ind', '*'), ('rec', '*'), ('server', '*'), ('node', 'interrupted'), ('node', 'nint'), ('node', 'insvc'), ('node', 'queues')}
    k2_frames = 40
    k2_invs2 = {'svc2', 'noinv'}         # the stage-2 T2 invariants (Inv/AllRun2.invs2_b) this property answers for on real snapshots
    regions = {'quick': [('preempt', 240), ('preempt_deep', 120), ('renege_preempt', 80), ('prio_reroute', 60), ('jsq_preempt', 40), ('schedpre', 100), ('slotted', 30), ('slotted_pre', 40),
                         ('dyn', 40), ('all', 60)]}
    rule = ('one case = one observed run of a network with pre-emptive priorities and/or pre-emptive schedules (customers of those nodes never '
            'blocked: a run is cut at the first interruption of a blocked customer, outside the property scope); non-trivial = some customer was '
            'interrupted >= 2 times and some pre-emption chose its victim among >= 2 customers in service; distinct = distinct configuration hashes')
    clause_text = {161: 'resume: the service time after the interruption is not the remaining time', 162: 'restart: the service time after the interruption is not the original one',
                   163: 'a pre-empted customer was served again (or left) without an interrupted record', 164: "the victim's dates are not those of its service in progress",
                   165: 'the victim of a pre-emption is not in service', 166: 'the victim is not a lowest-priority, most recently started customer in service',
                   167: 'pre-empted by a customer that is not of strictly higher priority', 168: 'interrupted record not dated at the interruption',
                   169: 'service start / record inconsistent with the service in progress', 171: 'a customer waits while a customer of strictly lower priority is in service'}

    def adjust(self, cfg, job):
        # dyn region: switch pre-emption on so that class changes while waiting pre-empt
        import random
        if cfg.get('region') == 'dyn' and cfg.get('prio') is not None and cfg.get('preempt') is None and cfg.get('qcap') is None:
            rng = random.Random('c11/%s' % cfg.get('gen_seed'))
            cfg['preempt'] = [rng.choice(['resume', 'restart', 'resample', False]) for _ in range(cfg['n'])]
        return cfg

    def project(self, tr, relaxed=False):
        return events(tr)[0]

    def nontrivial(self, tr):
        return events(tr)[3]

    def sample(self, tr):
        ev, meta, st, nt = events(tr)
        pre = [i for i, e in enumerate(ev) if e[0] == 2]
        seg = ev[max(0, pre[0] - 3):pre[0] + 6] if pre else ev[:8]
        return {'n_events': len(ev), 'around_first_preemption': seg, 'stats': st, 'preempt_options': tr.cfg.get('preempt'),
                'region': tr.cfg.get('region'), 'gen_seed': tr.cfg.get('gen_seed')}

    def stats(self, tr):
        return events(tr)[2]

    def frame_index(self, tr, k):
        meta = events(tr)[1]
        return meta[k] if 0 <= k < len(meta) else len(tr.frames)

    def explain(self, tr, v):
        if v[0] != 'R':
            return None
        ev, meta, st, nt = events(tr)
        k = v[1]
        cust = ev[k][1] if k < len(ev) and ev[k][0] in (1, 3, 4, 5) else (ev[k][2] if k < len(ev) and ev[k][0] == 2 else None)
        return {'event_index': k, 'event': ev[k] if k < len(ev) else None, 'frame': meta[k] if k < len(meta) else None,
                'history_of_customer': [e for e in ev[:k] if (e[0] in (1, 3, 4, 5) and e[1] == cust) or (e[0] == 2 and e[2] == cust)][-8:],
                'preempt': tr.cfg.get('preempt'), 'servers': tr.cfg['servers']}


PROP = C11()

"""C03 journey continuity: projection of a run onto the event list of coq/Acc/C03.v."""
from framework import Prop


def dcode(d):
    if d is None:
        return -3
    if d == 'nan':
        return -2
    if isinstance(d, int):
        return d if d > 0 else 0
    return -3


def events(tr):
    out, meta = [], []
    stats = {'records': 0, 'service': 0, 'interrupted': 0, 'renege': 0, 'baulk': 0, 'rejection': 0, 'reroute_records': 0}
    closing = {}
    special = set()
    for fi, f in enumerate(tr.frames):
        now = f['now']
        for e in f['cev']:
            k = e[0]
            if k == 'Spawn':
                out.append([1, e[2], e[1], now]); meta.append(fi + 1)
            elif k == 'Enter':
                out.append([2, e[2], e[1], now]); meta.append(fi + 1)
            elif k == 'ExitEnter':
                out.append([3, e[1], now]); meta.append(fi + 1)
            elif k == 'Record':
                r = e[3]
                a, x = r['arrival_date'], r['exit_date']
                if not (isinstance(a, int) and isinstance(x, int)):
                    a, x = -1, -2        # a record without proper dates can never be accepted
                d = dcode(r['destination'])
                out.append([4, e[2], r['type'], r['node'], a, x, d]); meta.append(fi + 1)
                stats['records'] += 1
                stats[('service', 'interrupted', 'renege', 'baulk', 'rejection')[r['type']]] += 1
                if r['type'] == 1 and d >= 0:
                    stats['reroute_records'] += 1
                if r['type'] in (0, 2) or (r['type'] == 1 and d >= 0):
                    closing[e[2]] = closing.get(e[2], 0) + 1
                if r['type'] in (1, 2) or (r['type'] == 0 and isinstance(r['time_blocked'], int) and r['time_blocked'] > 0):
                    special.add(e[2])
        out.append([5]); meta.append(fi + 1)
    if tr.exc is None and getattr(tr, 'records', None) is not None:
        for i in sorted(tr.records):
            loc = tr.records[i][0]
            out.append([6, i, loc if loc > 0 else 0]); meta.append(len(tr.frames))
    nt = any(closing.get(i, 0) >= 3 for i in special)
    return out, meta, stats, nt


class C03(Prop):
    id = 'C03'
    k2_mask = {('rec', 'id'), ('rec', 'node'), ('rec', 'type'), ('rec', 'arr'), ('rec', 'exit'), ('rec', 'dest'), ('rec', '*'), ('ind', 'node'), ('ind', 'nrec'), ('ind', '*')}      # the slice of the engine state / records this property reads (DESIGN 7, table of slices)
    k2_frames = 40
    k2_invs2 = {'jrn2', 'wfx2'}         # the stage-2 T2 invariants this property answers for on real snapshots ('jrn2': with the real record history)
    k2_invs = {'jrn', 'who', 'wfx'}          # the T2 invariants this property answers for on real snapshots ('jrn': with the real record history)
    num = 3
    regions = {'quick': [('core', 80), ('block', 100), ('routers', 60), ('renege', 60), ('renege_jockey', 60), ('schedpre_block', 40), ('preempt', 50), ('prio_reroute', 40),
                         ('sched', 40), ('schedpre', 40), ('sched_reroute', 30), ('slotted', 30), ('dyn', 30), ('ps', 20), ('all', 60), ('schedpre_tandem', 40), ('dyn_reroute', 30), ('sched_block', 60), ('sched_tandem', 60)]}
    rule = ('one case = one observed run; the event list has every customer creation, every entry into a node or the exit, every data '
            'record as it is written and the true final location of every customer; non-trivial = some customer has >= 3 visit-closing '
            'records and was blocked, pre-empted/interrupted or reneged on the way; distinct = distinct configuration hashes')
    clause_text = {30: 'customer identifier created twice', 31: 'a customer entered another node, or at another instant, than its previous record names',
                   32: 'a customer entered a node without a record closing its previous visit', 33: 'a customer is at the exit although its last record names a node',
                   34: 'a record was written after a baulk / rejection record', 35: 'baulk / rejection record not at the arrival node and instant or not the only record',
                   36: 'a record at another node / with another arrival date than the current visit (or a second closing record for one visit)',
                   37: 'record with exit before arrival', 38: 'service / renege record without a destination',
                   39: 'a customer left a node (or was created) and entered nowhere in the same event', 40: 'true location differs from the journey in the records'}

    def project(self, tr, relaxed=False):
        return events(tr)[0]

    def nontrivial(self, tr):
        return events(tr)[3]

    def sample(self, tr):
        ev, meta, st, nt = events(tr)
        one = None
        for e in ev:
            if e[0] == 4 and e[2] in (1, 2):
                one = e[1]
                break
        j = [e for e in ev if len(e) > 1 and e[1] == one][:12] if one else ev[:10]
        return {'n_events': len(ev), 'journey_of_one_customer': j, 'stats': st, 'region': tr.cfg.get('region'), 'gen_seed': tr.cfg.get('gen_seed')}

    def stats(self, tr):
        return events(tr)[2]

    def frame_index(self, tr, k):
        meta = events(tr)[1]
        return meta[k] if 0 <= k < len(meta) else len(tr.frames)

    def explain(self, tr, v):
        if v[0] != 'R':
            return None
        ev, meta, st, nt = events(tr)
        k = v[1]
        cust = ev[k][1] if k < len(ev) and len(ev[k]) > 1 else None
        return {'event_index': k, 'event': ev[k] if k < len(ev) else None, 'frame': meta[k] if k < len(meta) else None,
                'journey_so_far': [e for e in ev[:k] if len(e) > 1 and e[1] == cust][-8:]}


PROP = C03()

"""C13 reneging and baulking: projection of a run onto the event list of coq/Acc/C13.v."""
from framework import Prop

TWO53 = 2 ** 53


def node_reneging(cfg, j):
    return cfg.get('ren') is not None and any(cfg['ren'][c][j] is not None for c in range(cfg['k']))


def events(tr):
    """-> (event list, frame index of each event (1-based; 0 = initial), stats)"""
    from obs import SCALE
    cfg = tr.cfg
    out, meta = [], []
    stats = {'reneges': 0, 'patience_draws': 0, 'baulk_decisions': 0, 'baulked': 0, 'baulk_p_0': 0, 'baulk_p_1': 0, 'baulk_p_mid': 0,
             'renege_at_same_instant_as_a_start': 0, 'waiting_checks': 0}

    def emit(e, fi):
        out.append(e)
        meta.append(fi)

    def frame(cev, now, fi, snap):
        last_u = None
        starts_here = False
        for idx, e in enumerate(cev):
            k = e[0]
            if k == 'Unif':
                last_u = e[1]
            elif k == 'Enter':
                emit([1, e[2], e[1], now], fi)
            elif k == 'Draw' and e[1] == 'ren':
                v = e[7]
                if isinstance(v, (int, float)) and not isinstance(v, bool) and v == v and v >= 0 and v * SCALE == int(v * SCALE):
                    emit([2, e[6], e[2], int(v * SCALE), now], fi)
                    stats['patience_draws'] += 1
            elif k == 'Start':
                emit([3, e[2]], fi)
                starts_here = True
            elif k in ('Preempt', 'Interrupt'):
                emit([4, e[2]], fi)
            elif k == 'Release':
                emit([8, e[2]], fi)
            elif k == 'Renege':
                node = e[1]
                rest = cev[idx + 1:]
                ch = next((x for x in rest if x[0] == 'Chosen' and x[1] == node), None)
                if ch is None:
                    continue
                ind = ch[2]
                rt = next((x for x in rest if x[0] == 'Route' and x[2] == ind and x[8] == 2), None)
                dest = (rt[4] if rt and rt[4] > 0 else 0)
                entered = -1
                for x in rest:
                    if x[0] == 'Enter' and x[2] == ind:
                        entered = x[1]
                        break
                    if x[0] == 'ExitEnter' and x[1] == ind:
                        entered = 0
                        break
                rec = next((x[3] for x in rest if x[0] == 'Record' and x[2] == ind and x[3]['type'] == 2), None)
                ra, rw, rx = (-1, -1, -1)
                if rec is not None and all(isinstance(rec[f], int) for f in ('arrival_date', 'waiting_time', 'exit_date')):
                    ra, rw, rx = rec['arrival_date'], rec['waiting_time'], rec['exit_date']
                emit([5, ind, node, now, dest, entered, ra, rw, rx, 0 if ch[7] is None else 1], fi)
                stats['reneges'] += 1
            elif k in ('Baulk', 'Send'):
                node, ind = e[1], e[2]
                d = 1 if k == 'Baulk' else 0
                sp_i = None
                for j in range(idx - 1, -1, -1):
                    if cev[j][0] == 'Spawn' and cev[j][2] == ind:
                        sp_i = j
                        break
                if sp_i is None:
                    continue
                sp = cev[sp_i]
                cls = sp[3]
                has_fn = cfg.get('baulk') is not None and cfg['baulk'][cls][node - 1] is not None
                if not has_fn and d == 0:
                    continue                       # no baulking function for this class and node: nothing to decide
                pop = sp[4]
                before = cev[sp_i + 1:idx]
                fn = next((x for x in before if x[0] == 'BaulkFn' and x[5] == ind), None)
                us = [x[1] for x in before if x[0] == 'Unif']
                n, p4 = (fn[3], fn[4]) if fn is not None else (-1, 0)      # function not called for this customer: reported as n = -1
                U = int(us[-1] * TWO53) if us else -1
                seg = []
                for x in cev[idx + 1:]:
                    if x[0] == 'Spawn':
                        break
                    seg.append(x)
                exited = any(x[0] == 'ExitEnter' and x[1] == ind for x in seg)
                entered = any(x[0] == 'Enter' and x[2] == ind and x[1] == node for x in seg)
                rec = next((x[3] for x in seg if x[0] == 'Record' and x[2] == ind and x[3]['type'] == 3), None)
                ra, rx = (-1, -1)
                if rec is not None and isinstance(rec['arrival_date'], int) and isinstance(rec['exit_date'], int):
                    ra, rx = rec['arrival_date'], rec['exit_date']
                emit([7, node, ind, n, pop, p4, U, d, 1 if exited else 0, 1 if entered else 0, ra, rx, now], fi)
                stats['baulk_decisions'] += 1
                stats['baulked'] += d
                stats['baulk_p_0' if p4 == 0 else ('baulk_p_1' if p4 == 4 else 'baulk_p_mid')] += 1
        # waiting customers after the frame
        w = []
        for j, n in enumerate(snap['nodes']):
            if n['c'] == 'inf' or not node_reneging(cfg, j):
                continue
            for q in n['queues']:
                for i in q:
                    ind = snap['inds'][i]
                    if ind['server'] is None:
                        w.append([i, ind['reneging_date']])
        emit([6, now, w], fi)
        stats['waiting_checks'] += len(w)
        if starts_here and any(x[0] == 'Renege' for x in cev):
            stats['renege_at_same_instant_as_a_start'] += 1

    prev_now = None
    for fi, f in enumerate(tr.frames):
        frame(f['cev'], f['now'], fi + 1, f['snap'])
    return out, meta, stats


class C13(Prop):
    id = 'C13'
    num = 13
    # K2: the slice of the (stage-2) engine model's state / records this property reads
    k2_mask = {('ind', '*'), ('rec', '*'), ('node', 'queues'), ('node', 'pop'), ('node', 'next_type'), ('node', 'next_date'), ('node', 'next_inds')}
    k2_frames = 40
    k2_invs2 = {'ren'}         # the stage-2 T2 invariants (Inv/AllRun2.invs2_b) this property answers for on real snapshots
    regions = {'quick': [('renege', 260), ('renege_preempt', 60), ('renege_jockey', 60), ('renege_schedpre', 40), ('core', 120), ('block', 40), ('all', 80), ('sched', 30), ('dyn', 30)]}
    rule = ('one case = one observed run; the event list has every patience sample (logged in the distribution object), every renege with '
            'what happened in its frame, the waiting customers and their reneging dates after every event, and every baulking decision '
            '(population passed, probability returned, uniform draw, outcome); non-trivial = the run had >= 1 renege and >= 3 baulking '
            'decisions or >= 3 reneges; distinct = distinct configuration hashes')
    clause_text = {131: 'patience not sampled at the arrival instant at that node', 132: 'a customer without a sampled patience reneged',
                   133: 'renege not exactly at arrival + patience', 134: 'a customer in service (or holding a server) reneged',
                   135: 'the reneging customer did not go to its jockeying destination in the same frame',
                   136: 'renege record missing or wrong (waiting_time = exit - arrival, exit = now)',
                   137: 'a waiting customer has waited longer than its patience, or its reneging date is not arrival + patience',
                   138: 'baulking function not evaluated on the true population', 139: 'baulk decision is not "u < p"',
                   140: 'a baulker did not leave at once with a baulk record', 141: 'a customer that did not baulk was not admitted'}

    def adjust(self, cfg, job):
        # make baulking frequent in the regions of this check
        import random
        rng = random.Random('c13/%s' % cfg.get('gen_seed'))
        if cfg.get('baulk') is None and rng.random() < 0.6:
            n, k = cfg['n'], cfg['k']
            cfg['baulk'] = [[([rng.choice([0, 0, 1, 2, 4]) for _ in range(rng.randint(1, 4))] if rng.random() < 0.7 else None)
                             for _ in range(n)] for _ in range(k)]
        return cfg

    def project(self, tr, relaxed=False):
        return events(tr)[0]

    def nontrivial(self, tr):
        st = events(tr)[2]
        return (st['reneges'] >= 1 and st['baulk_decisions'] >= 3) or st['reneges'] >= 3

    def sample(self, tr):
        ev, meta, st = events(tr)
        interesting = [e for e in ev if e[0] in (2, 5, 7)][:8]
        return {'n_events': len(ev), 'some_events': interesting, 'stats': st, 'region': tr.cfg.get('region'), 'gen_seed': tr.cfg.get('gen_seed')}

    def stats(self, tr):
        return events(tr)[2]

    def frame_index(self, tr, k):
        meta = events(tr)[1]
        return meta[k] if 0 <= k < len(meta) else len(tr.frames)

    def explain(self, tr, v):
        if v[0] != 'R':
            return None
        ev, meta, st = events(tr)
        k = v[1]
        fi = meta[k] if k < len(meta) else None
        return {'event_index': k, 'event': ev[k] if k < len(ev) else None, 'frame': fi,
                'label': tr.frames[fi - 1]['label'] if fi else None, 'events_before': ev[max(0, k - 5):k]}


PROP = C13()

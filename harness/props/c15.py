"""C15 reproducibility and isolation: metamorphic comparison of seed;build;run after a process history / on a re-used
Network / next to a sibling simulation against the same three steps in a FRESH interpreter, bit for bit."""
import random, math, json, os, sys, subprocess, itertools, types

HERE = os.path.dirname(os.path.abspath(__file__))
if os.path.dirname(HERE) not in sys.path:
    sys.path.insert(0, os.path.dirname(HERE))
from framework import Prop


def encv(x):
    if x is False or x is None:
        return None
    if x is True:
        return 'T'
    if isinstance(x, int):
        return x
    if isinstance(x, float):
        if math.isnan(x):
            return 'nan'
        if math.isinf(x):
            return 'inf' if x > 0 else 'ninf'
        a, b = x.as_integer_ratio()
        return [a, b]
    if isinstance(x, str):
        return [ord(c) for c in x][:40]
    if isinstance(x, (tuple, list)):
        return [encv(y) for y in x]
    return [ord(c) for c in repr(x)][:40]


def lib_dist(vals, kind, node, cls, integer):
    """library distributions chosen deterministically from the stream's position: stateful, composite and random ones"""
    import ciw
    D = ciw.dists
    if integer:
        return D.Sequential([int(v) for v in vals])
    f = [v / 4.0 for v in vals]
    h = (hash((kind, node, cls)) if False else (len(kind) * 7 + node * 3 + cls * 5)) % 6
    if h == 0:
        return D.Sequential(f)
    if h == 1:
        return D.Sequential(f) + D.Deterministic(0.25)                     # composite with a stateful component
    if h == 2:
        return D.Exponential(1.0 / (sum(f) / len(f) + 0.25))
    if h == 3:
        return D.MixtureDistribution([D.Sequential(f), D.Deterministic(0.5)], [0.5, 0.5])
    if h == 4:
        return D.Uniform(0.0, max(f) + 0.25)
    return D.Sequential(f) * D.Deterministic(1.0)


def build(cfg):
    import netbuild
    netbuild.DIST_HOOK[0] = lib_dist if cfg.get('dist_mode') == 'lib' else None
    try:
        return netbuild.make_network(cfg)
    finally:
        netbuild.DIST_HOOK[0] = None


class Zeno(Exception):
    pass


_CAP = {}


def cap_class():
    """ciw.Simulation with a cap on the number of executed events (a configuration with zero service times and a
    self-loop never advances the clock); inherits everything else"""
    import ciw
    if 'c' not in _CAP:
        class CapSim(ciw.Simulation):
            def event_and_return_nextnode(self, next_active_node):
                self._nev = getattr(self, '_nev', 0) + 1
                if self._nev > 30000:
                    raise Zeno()
                return super().event_and_return_nextnode(next_active_node)
        _CAP['c'] = CapSim
    return _CAP['c']


def disturb(Q, T):
    """a simulation whose only role is to disturb shared state before the run that is compared: it runs on ANOTHER random stream, so it may
    end in one of the engine's known crashes (e.g. F-02a) although the compared run does not; whatever it has done by then stays done"""
    try:
        Q.simulate_until_max_time(T)
    except Zeno:
        raise
    except Exception:
        return False
    return True


def simulate(cfg, N, T=None, tracker=True):
    import ciw
    kw = {}
    if tracker:
        kw['tracker'] = getattr(ciw.trackers, cfg.get('tracker15', 'NodePopulation'))()
    Q = cap_class()(N, **kw)
    return Q


def outcome(Q):
    recs = sorted(Q.get_all_records(), key=lambda r: (r.id_number, r.arrival_date, r.exit_date, r.record_type))
    return [[encv(tuple(r)) for r in recs], encv(Q.current_time), [[encv(t), encv(s)] for t, s in Q.statetracker.history]]


def reference(cfg):
    """seed; build; run in this (fresh) interpreter"""
    import ciw
    ciw.seed(cfg['seed'])
    N = build(cfg)
    Q = simulate(cfg, N)
    Q.simulate_until_max_time(cfg['T15'])
    return outcome(Q)


def reach(obj, acc, depth=0):
    """ids of the stateful objects reachable from obj (distributions, routers, schedules, generators, cycles)"""
    import ciw
    if depth > 6 or obj is None or isinstance(obj, (int, float, str, bool)):
        return
    if isinstance(obj, (list, tuple)):
        for x in obj:
            reach(x, acc, depth + 1)
        return
    if isinstance(obj, dict):
        for x in obj.values():
            reach(x, acc, depth + 1)
        return
    stateful = isinstance(obj, (ciw.dists.Distribution, ciw.routing.NetworkRouting, ciw.routing.NodeRouting, ciw.Schedule, types.GeneratorType, itertools.cycle))
    if stateful:
        if id(obj) in acc:
            return
        acc[id(obj)] = type(obj).__name__
        for k, v in getattr(obj, '__dict__', {}).items():
            if k in ('simulation', 'node'):
                continue
            reach(v, acc, depth + 1)


def members_of_network(N):
    out = []
    for c in N.customer_classes.values():
        out += [c.arrival_distributions, c.service_distributions, c.batching_distributions, c.reneging_time_distributions,
                c.class_change_time_distributions, c.routing]
    for sc in N.service_centres:
        out.append(sc.number_of_servers)
    return out


def members_of_sim(Q):
    return [Q.inter_arrival_times, Q.service_times, Q.batch_sizes, Q.reneging_times, Q.class_change_times, Q.routers,
            [n.schedule for n in Q.transitive_nodes]]


def n_shared(a, b):
    x, y = {}, {}
    reach(a, x)
    reach(b, y)
    return len(set(x) & set(y))


class C15(Prop):
    id = 'C15'
    num = 15
    soft_clauses = (223,)
    regions = {'quick': [('core', 1)]}
    REG = ['core', 'routers', 'renege', 'dyn', 'sched', 'schedpre', 'slotted', 'preempt', 'all', 'block', 'renege_jockey', 'jsq_preempt']
    rule = ('one case = one configuration (scripted cyclic distributions, or library distributions incl. Sequential, composite, mixture and '
            'random ones) whose reference outcome comes from a fresh interpreter and is compared with 3-4 outcomes obtained in a process with a '
            'history (earlier simulations; a re-used Network; a sibling simulation built from the same Network and run first); non-trivial = the '
            'reference run wrote >= 10 records and the network has a stateful member (cyclic / Sequential distribution, Cycle router or Schedule); '
            'distinct = distinct configuration hashes')
    clause_text = {220: 'seed; build; run after earlier simulations differs from the fresh interpreter', 221: 'a simulation built from a re-used Network differs from one built from a fresh Network',
                   222: 'a simulation is disturbed by a sibling simulation built from the same Network', 223: 'mechanism: a stateful member is shared between a simulation and its Network / a sibling (the model assumes copies)',
                   224: 'the reference run failed'}

    def jobs(self, tier, seed):
        m = 160 if tier == 'quick' else 4000
        return [{'custom': 'repro', 'dseed': seed * 100003 + i, 'region': self.REG[i % len(self.REG)], 'want_sample': i % 40 == 0} for i in range(m)]

    def make_cfg(self, job):
        import gen
        rng = random.Random('c15/%d' % job['dseed'])
        cfg = gen.gen(job['region'], job['dseed'])
        cfg.pop('detector', None)
        cfg['ps'] = None
        cfg['dist_mode'] = rng.choice(['scripted', 'lib', 'lib'])
        cfg['tracker15'] = rng.choice(['NodePopulation', 'SystemPopulation', 'NodeClassMatrix'])
        cfg['T15'] = rng.choice([15.0, 30.0, 50.0])
        return cfg

    def custom_work(self, job, drv):
        import sx, ciw, netbuild, obs
        cfg = job.get('cfg15') or self.make_cfg(job)
        rng = random.Random('c15r/%d' % job['dseed'])
        res = {'region': cfg.get('region'), 'gseed': job['dseed'], 'hash': 'r%d' % job['dseed'], 'exc': None, 'status': 'ok', 'stats': {}, 'nontrivial': False, 'nframes': 0}
        # reference in a fresh interpreter
        env = dict(os.environ)
        p = subprocess.run([sys.executable, os.path.join(HERE, 'c15.py')], input=json.dumps(cfg), capture_output=True, text=True, env=env, timeout=300)
        if p.returncode == 3:
            res['status'] = 'cfg_rejected'         # Zeno configuration: discarded and counted
            return res
        if p.returncode != 0:
            try:
                build(cfg)
            except Exception:
                res['status'] = 'cfg_rejected'
                return res
            res['verdict'] = ('R', 0, 224, [])
            res['cfg'] = {'replay_job': {'custom': 'repro', 'cfg15': cfg, 'dseed': job['dseed']}}
            res['finding'] = None
            res['detail'] = {'stderr': p.stderr[-600:]}
            return res
        ref = json.loads(p.stdout)
        tests = []
        shared = 0
        detail = {}
        try:
            obs.OBS.on = False
            # kind 1: after earlier simulations in this process (this worker has run many already; add some of this config)
            ciw.seed(rng.randrange(1 << 20))
            for _ in range(rng.choice([1, 2])):
                Q0 = simulate(cfg, build(cfg))
                disturb(Q0, rng.choice([3.0, 11.0]))
            ciw.seed(cfg['seed'])
            N = build(cfg)
            Q = simulate(cfg, N)
            shared += n_shared(members_of_network(N), members_of_sim(Q))
            Q.simulate_until_max_time(cfg['T15'])
            tests.append([1, outcome(Q)])
            # kind 2: the SAME Network object again (it has been simulated once, fully), and once more after a partial run
            ciw.seed(cfg['seed'])
            Q2 = simulate(cfg, N)
            Q2.simulate_until_max_time(cfg['T15'])
            tests.append([2, outcome(Q2)])
            ciw.seed(rng.randrange(1 << 20))
            Qp = simulate(cfg, N)
            disturb(Qp, 7.0)
            ciw.seed(cfg['seed'])
            Q3 = simulate(cfg, N)
            shared += n_shared(members_of_sim(Qp), members_of_sim(Q3))
            Q3.simulate_until_max_time(cfg['T15'])
            tests.append([2, outcome(Q3)])
            # kind 3: a sibling built from the same Network runs first; the random streams are put back afterwards
            ciw.seed(cfg['seed'])
            N4 = build(cfg)
            Qa = simulate(cfg, N4)
            st = random.getstate()
            npst = ciw.rng.bit_generator.state
            Qb = simulate(cfg, N4)
            shared += n_shared(members_of_sim(Qa), members_of_sim(Qb))
            disturb(Qb, cfg['T15'])
            random.setstate(st)
            ciw.rng.bit_generator.state = npst
            Qa.simulate_until_max_time(cfg['T15'])
            tests.append([3, outcome(Qa)])
        except Zeno:
            res['status'] = 'cfg_rejected'
            obs.OBS.on = True
            return res
        except Exception as e:
            detail['exception'] = repr(e)[:300]
        finally:
            obs.OBS.on = True
        tree = [1 if job.get('relaxed') else 0, ref, tests, shared]
        v = drv.ask(self.num, sx.dump(tree))
        if v[0] == 'R' and v[2] in self.soft_clauses:
            v2 = drv.ask(self.num, sx.dump([1, ref, tests, shared]))
            if v2[0] == 'A':
                res['soft'] = {'clause': v[2], 'frame': 0, 'cfg': {'replay_job': {'custom': 'repro', 'cfg15': cfg, 'dseed': job['dseed']}},
                               'detail': {'shared_objects': shared}, 'finding': None}
                v = ('A', [])
            else:
                v = v2
        res['verdict'] = v
        stateful = cfg['dist_mode'] == 'scripted' or any(isinstance(s, dict) for s in cfg['servers']) or any(r['kind'] == 'nr' for r in cfg['routing'])
        res['nontrivial'] = len(ref[0]) >= 10 and bool(stateful or cfg['dist_mode'] == 'lib')
        res['stats'] = {'outcomes_compared': len(tests), 'records_in_reference': len(ref[0]), 'cases_lib_distributions': 1 if cfg['dist_mode'] == 'lib' else 0,
                        'cases_with_schedule': 1 if any(isinstance(s, dict) for s in cfg['servers']) else 0,
                        'cases_with_node_routers': 1 if any(r['kind'] == 'nr' for r in cfg['routing']) else 0}
        if v[0] != 'A' or 'exception' in detail:
            if v[0] == 'A':
                res['verdict'] = ('R', 0, 224, [])
            res['cfg'] = {'replay_job': {'custom': 'repro', 'cfg15': cfg, 'dseed': job['dseed']}}
            res['finding'] = None
            which = res['verdict'][1] if res['verdict'][0] == 'R' else None
            d = dict(detail, kinds=[t[0] for t in tests], failing_outcome_index=which, shared_objects=shared)
            if which is not None and which < len(tests):
                a, b = ref, tests[which][1]
                d['records_ref_vs_test'] = [len(a[0]), len(b[0])]
                d['clock_ref_vs_test'] = [a[1], b[1]]
            res['detail'] = d
        if job.get('want_sample'):
            res['sample'] = {'region': cfg.get('region'), 'dist_mode': cfg['dist_mode'], 'records_in_reference': len(ref[0]), 'final_clock': ref[1],
                             'history_entries': len(ref[2]), 'kinds_compared': [t[0] for t in tests], 'shared_stateful_objects': shared}
        return res

    def project(self, tr, relaxed=False):
        raise NotImplementedError


PROP = C15()

if __name__ == '__main__':
    # fresh-interpreter reference: configuration on stdin, outcome on stdout
    sys.path.insert(0, os.path.dirname(HERE))
    repo = os.environ.get('CIW_REPO', '/repo')
    if repo not in sys.path:
        sys.path.insert(0, repo)
    import obs
    obs.OBS.on = False
    cfg = json.loads(sys.stdin.read())
    try:
        out = reference(cfg)
    except Zeno:
        sys.exit(3)
    sys.stdout.write(json.dumps(out))

"""C07 Type I blocking / FIFO unblocking: projection."""
from framework import Prop


def snap_part(s):
    return [[[b[1] for b in n['bq']] for n in s['nodes']],
            [sum(len(q) for q in n['queues']) for n in s['nodes']],
            [n['cap'] for n in s['nodes']],
            sorted([i, ind['dest'] if ind['dest'] is not None else 0] for i, ind in s['inds'].items() if ind['blocked'])]


def events(cev, prev):
    out = []
    pending = {}
    for e in cev:
        k = e[0]
        if k == 'Route' and e[8] == 0:
            pending[e[2]] = e
        elif k == 'Release':
            x, dest, reroute, wasb = e[2], e[3], e[4], e[5]
            if wasb and not reroute:
                out.append([3, dest if dest > 0 else 0, x])
            elif not reroute and x in pending:
                r = pending.pop(x)
                if dest > 0:
                    out.append([1, x, dest, r[5][dest - 1][0], prev['nodes'][dest - 1]['cap'], 1])
                else:
                    out.append([1, x, 0, 0, 'inf', 1])
        elif k == 'Block':
            x, dest = e[2], e[3]
            pending.pop(x, None)
            out.append([1, x, dest, e[4], e[5], 0])
            out.append([2, dest, x])
    return out


class C07(Prop):
    id = 'C07'
    k2_mask = {('node', 'queues'), ('node', 'bq'), ('node', 'lenbq'), ('node', 'pop'), ('ind', 'blocked'), ('ind', 'dest'), ('ind', 'server'), ('rec', 'blocked'), ('rec', 'dest')}      # the slice of the engine state / records this property reads (DESIGN 7, table of slices)
    k2_frames = 40
    k2_invs2 = {'blk2'}         # the stage-2 T2 invariants (Inv/AllRun2.invs2_b) this property answers for on real snapshots
    k2_invs = {'blk', 'who', 'cap'}          # the T2 invariants (Inv/AllRun.invs_b) this property answers for on real snapshots
    num = 7
    regions = {'quick': [('block', 260), ('core', 60), ('routers', 50), ('renege', 50), ('sched_block', 80), ('deadlock', 40), ('fanout_block', 60)]}
    rule = ('one case = one observed run of a restricted network (finite capacities, non-pre-emptive); non-trivial = at some '
            'instant two customers were blocked towards the same node and an unblocking cascade of depth >= 2 happened; '
            'distinct = distinct configuration hashes')
    clause_text = {20: 'a customer routed to the exit did not leave at once', 21: '(a) moved on / blocked disagrees with "destination has space"',
                   22: 'event names an unknown node', 23: '(c) the released customer is not the one blocked longest towards that node',
                   24: '(c) a customer was released from blocking towards a node whose blocked queue is empty',
                   25: '(b) a customer is blocked towards a node that has space', 26: '(b) blocked flags and blocked queues disagree',
                   27: 'blocked queues after the frame differ from the replayed ones'}

    def adjust(self, cfg, job):
        if cfg.get('run', [''])[0] == 'deadlock':
            cfg['run'] = ['time', 120]
            cfg['detector'] = False
        return cfg

    def project(self, tr):
        out = [snap_part(tr.init) + [[]]]
        prev = tr.init
        for f in tr.frames:
            out.append(snap_part(f['snap']) + [events(f['cev'], prev)])
            prev = f['snap']
        return out

    def nontrivial(self, tr):
        two = any(len(n['bq']) >= 2 for f in tr.frames for n in f['snap']['nodes'])
        casc = any(sum(1 for e in f['cev'] if e[0] == 'Release' and e[5]) >= 2 for f in tr.frames)
        return two and casc

    def sample(self, tr):
        p = self.project(tr)
        fr = [x for x in p if any(e[0] == 3 for e in x[4])]
        return {'frames': len(p), 'a_frame_with_unblocking': fr[0] if fr else None, 'region': tr.cfg.get('region'),
                'gen_seed': tr.cfg.get('gen_seed')}

    def stats(self, tr):
        return {'blockings': sum(1 for f in tr.frames for e in f['cev'] if e[0] == 'Block'),
                'unblockings': sum(1 for f in tr.frames for e in f['cev'] if e[0] == 'Release' and e[5])}

    def explain(self, tr, v):
        if v[0] != 'R' or v[1] < 1:
            return None
        f = tr.frames[v[1] - 1]
        prev = tr.frames[v[1] - 2]['snap'] if v[1] >= 2 else tr.init
        return {'frame': v[1], 'label': f['label'], 'events': events(f['cev'], prev)[:20], 'before': snap_part(prev), 'after': snap_part(f['snap'])}


PROP = C07()

"""C20 exact arithmetic mode.

Three kinds of cases, all 'custom' jobs:

 * 'dec'   object-level differential: Python's decimal module (getcontext().prec = k, k in 10..30, default
           ROUND_HALF_EVEN) against the extracted Gallina model of Sub/Decimal.v: a + b / a - b (add_k), the
           Decimal(str(x)) literal reader (of_lit), running sums (scan) and == / < (dec_cmp), on random operands
           including exact ties, carries 99..9 -> 100..0, cancellations, zeros with odd exponents and large
           exponent gaps.  One job = one batch of operations.
 * 'runs'  K1 on real runs: one integer-tick configuration from harness/gen.py is run by the real engine
             A  with exact=k and 10^-d-grid samples (ticks/D, D in {4, 10, 1000, 10^8}; str(float) is the literal, for the
                10^-8 grid partly in exponent notation such as '1.25e-05'),
             B  as an ordinary float run on the dyadic grid ticks/4, where binary arithmetic is exact: the tick run,
             C  (D != 4 only) as a float run on the same non-dyadic values as A: reported, never judged.
           The extracted acceptor Acc/C20.v gets, per record, the discrete fields of A and B and per date/duration
           field (is Decimal, coefficient, exponent, tick value in B).
 * 'fold'  a real exact run whose precision is too small for its dates (rounding happens at every arrival):
           the arrival dates must be the model's running sums add_k k (...) of the literals.
"""
import math, os, random, re, subprocess
from decimal import Decimal, getcontext
from fractions import Fraction
from framework import Prop, COQ
import sx

TIME_FIELDS = ('arrival_date', 'waiting_time', 'service_start_date', 'service_time', 'service_end_date',
               'time_blocked', 'exit_date')
DISC_FIELDS = ('id_number', 'node', 'customer_class', 'original_customer_class', 'destination',
               'queue_size_at_arrival', 'queue_size_at_departure', 'server_id', 'record_type')
RT = ['service', 'interrupted service', 'renege', 'baulk', 'rejection']
MAX_EVENTS = {'quick': 500, 'big': 2500}


# ------------------------------------------------------------------ decimals <-> wire
def dec_pair(x):
    """finite Decimal -> [signed coefficient, exponent] exactly as as_tuple() gives them"""
    sign, digits, exp = x.as_tuple()
    m = int(''.join(map(str, digits))) if digits else 0
    return [-m if sign else m, exp]


def pair_dec(m, e):
    return Decimal((1 if m < 0 else 0, tuple(int(c) for c in str(abs(m))), e))


LIT = re.compile(r'^(-?)(\d*)(?:\.(\d*))?(?:[eE]([-+]?\d+))?$')


def lit_parts(s):
    """'-12.50e-3' -> [1, [1,2], [5,0], -3]  (pure lexing; the arithmetic is the model's of_lit)"""
    m = LIT.match(s)
    if not m:
        return None
    ip, fp = m.group(2) or '', m.group(3) or ''
    if ip == '' and fp == '':
        return None
    return [1 if m.group(1) else 0, [int(c) for c in ip], [int(c) for c in fp], int(m.group(4) or 0)]


def parse_m(txt):
    """driver output '(m e)' / '((m e) (m e))' / 'n' -> nested python lists of ints"""
    toks = txt.replace('(', ' ( ').replace(')', ' ) ').split()
    pos = [0]

    def item():
        t = toks[pos[0]]
        pos[0] += 1
        if t == '(':
            out = []
            while toks[pos[0]] != ')':
                out.append(item())
            pos[0] += 1
            return out
        return int(t)
    return item()


def rand_operand(rng, maxdig):
    nd = rng.choice([1, 2, 3, 5, 8, 12, 17, 25, maxdig])
    nd = min(nd, maxdig)
    m = rng.randrange(10 ** (nd - 1), 10 ** nd) if rng.random() < 0.9 else 0
    if rng.random() < 0.3:
        m = -m
    e = rng.randint(-18, 6)
    return m, e


def gen_op(rng, k):
    """one (a, b) pair, biased to the interesting cases"""
    r = rng.random()
    if r < 0.25:       # exact tie at the k-th digit: X (k digits) + 5 one place below (then half-even decides)
        x = rng.randrange(10 ** (k - 1), 10 ** k)
        e = rng.randint(-12, 3)
        t = rng.choice([5, 50, 500, 4, 6, 49, 51, 499, 501])
        sh = len(str(t))
        a = (x, e)
        b = (t, e - sh)
        if rng.random() < 0.3:
            a, b = (-a[0], a[1]), (-b[0], b[1])
        return a, b
    if r < 0.35:       # carry out of the top digit: 99..9x + something
        e = rng.randint(-10, 2)
        a = (10 ** k - rng.randint(1, 3), e)
        b = (rng.choice([1, 2, 3, 5, 15, 25, 49, 50, 51]), e - rng.randint(0, 2))
        return a, b
    if r < 0.45:       # cancellation
        m, e = rand_operand(rng, k + 4)
        d = rng.choice([0, 1, -1, 5, 10 ** (k // 2)])
        return (m, e), (-m + d, e - rng.choice([0, 0, 1, 3]))
    if r < 0.52:       # a zero operand with an odd exponent
        m, e = rand_operand(rng, k + 6)
        z = (0, rng.choice([-40, -25, -3, 0, 2, 9]))
        return ((m, e), z) if rng.random() < 0.5 else (z, (m, e))
    if r < 0.6:        # far apart exponents (the smaller operand only matters through the sticky position)
        a = (rng.randrange(1, 10 ** rng.randint(1, k + 2)), rng.randint(10, 30))
        b = (rng.choice([1, -1, 5, -5, 49999, 50000, 50001]), rng.randint(-30, -5))
        return a, b
    return rand_operand(rng, k + 8), rand_operand(rng, k + 8)


# ------------------------------------------------------------------ runs
def remap_cfg(cfg, f, T, fs=None):
    """apply f to every sampled time value (ticks) of a configuration and fs (default f) to the timetable values
    (shift ends, slots, offsets); run horizon becomes T"""
    c = dict(cfg)
    fs = fs or f
    mp = lambda l: None if l is None else [f(v) for v in l]
    for key in ('arr', 'svc', 'ren'):
        if c.get(key) is not None:
            c[key] = [[mp(x) for x in row] for row in c[key]]
    if c.get('cct') is not None:
        c['cct'] = [[mp(x) for x in row] for row in c['cct']]
    sv = []
    for s in c['servers']:
        if isinstance(s, dict):
            s = dict(s)
            for key in ('ends', 'slots'):
                if key in s:
                    s[key] = [fs(v) for v in s[key]]
            s['offset'] = fs(s.get('offset', 0))
        sv.append(s)
    c['servers'] = sv
    c['run'] = ['time', T]
    return c


MODES = {
    # name: (D ticks per unit for the exact run, d, mult) with D * mult = 10^d ; tick transform
    'grid': (4, 2, 25, lambda t: t),                          # 0.25, 0.5, ... dyadic AND short decimals
    'tenth': (10, 1, 1, lambda t: t),                         # 0.1, 0.2, 0.3, ... not dyadic
    'third': (1000, 3, 1, lambda t: (t * 1000 + 1) // 3),     # 0.333, 0.667, 1.0, 1.333, ... (t/3 to 3 places)
    # unit 10^-8: some samples are tiny, so that str(float) is in exponent notation ('1.25e-05', '3.75e-05'), the others are
    # plain ('0.2', '0.60000625'); timetable values and the horizon are plain tenths
    'micro': (10 ** 8, 8, 1, lambda t: (t * 1250 if t in (1, 3) else (t * 10 ** 7 + 625 if t == 6 else t * 10 ** 7)),
              lambda t: t * 10 ** 7),
}


def _make_counting_sim(ciw, obs):
    class CountSim(ciw.Simulation):
        """behaviour-free: counts B-events, counts events that run at the date of the previous one, stops
        after max_events"""

        def event_and_return_nextnode(self, nd):
            self.nev += 1
            if self.nev > self.max_events:
                raise obs.StopRun()
            d = nd.next_event_date
            if self.last_date is not None and d == self.last_date:
                self.ties += 1
            self.last_date = d
            if self.watch_pseudo:
                self.pseudo_check(d)
            return super().event_and_return_nextnode(nd)

        def pseudo_check(self, d):
            """trigger of finding F-20c: a pending event is mathematically simultaneous with the executing one
            (same decimal value through str) but compares unequal because one of the two dates is a binary float"""
            try:
                dd = Decimal(str(d))
            except Exception:
                return
            for n in self.active_nodes:
                cands = [n.next_event_date]
                pe = getattr(n, 'possible_next_events', None)
                if pe:
                    cands += [x[1] for x in pe.values()]
                for c in cands:
                    if isinstance(c, float) != isinstance(d, float) and not (isinstance(c, float) and math.isinf(c)):
                        try:
                            if Decimal(str(c)) == dd and c != d:
                                self.pseudo += 1
                                if self.first_pseudo is None:
                                    self.first_pseudo = dd
                                return
                        except Exception:
                            pass
    return CountSim


def run_once(cfg, den, exact, max_events):
    """one real run.  Returns dict(recs = [(id, idx, record)], nev, ties, unif, exc, classes)"""
    import obs, netbuild
    ciw = obs.ciw
    obs.install_shim()
    obs.OBS.reset()
    obs.OBS.on = False
    out = {'exc': None, 'recs': [], 'nev': 0, 'ties': 0, 'unif': 0, 'pseudo': 0, 'first_pseudo': None}
    with netbuild.time_den(den):
        ciw.seed(cfg.get('seed', 0))
        net = netbuild.make_network(cfg)
        obs.OBS.classes = list(net.customer_class_names)
        out['classes'] = list(net.customer_class_names)
        kw = {}
        if exact:
            kw['exact'] = exact
        Q = None
        try:
            Q = _make_counting_sim(ciw, obs)(net, **kw)
            Q.nev, Q.ties, Q.last_date, Q.max_events = 0, 0, None, max_events
            Q.watch_pseudo, Q.pseudo, Q.first_pseudo = bool(exact), 0, None
            netbuild.do_run(Q, cfg['run'])
        except obs.StopRun:
            out['stopped'] = True
        except Exception as e:
            out['exc'] = obs.repo_site(e)
        finally:
            obs.OBS.on = True
    if Q is not None:
        out['nev'], out['ties'] = Q.nev, Q.ties
        out['pseudo'], out['first_pseudo'] = Q.pseudo, Q.first_pseudo
        if exact and out['exc'] is None:
            # the selection of the event after the last executed one (at or beyond the horizon) also breaks ties with a
            # uniform draw: look for a pseudo-tie among the pending dates too
            try:
                dates = [n.next_event_date for n in Q.active_nodes]
                m = min(dates)
                md = Decimal(str(m))
                for c in dates:
                    if isinstance(c, float) != isinstance(m, float) and not (isinstance(c, float) and math.isinf(c)) \
                            and Decimal(str(c)) == md and c != m:
                        out['pseudo'] += 1
                        if out['first_pseudo'] is None:
                            out['first_pseudo'] = md
                        break
            except Exception:
                pass
        for nd in Q.nodes[1:]:
            for ind in nd.all_individuals:
                for j, r in enumerate(ind.data_records):
                    out['recs'].append((ind.id_number, j, r))
        out['recs'].sort(key=lambda x: (x[0], x[1]))
    out['unif'] = obs.OBS.unif_count
    return out


def enc_disc(v, classes):
    if v is False:
        return -8
    if v is True:
        return -9
    if isinstance(v, float):
        if math.isnan(v):
            return -7
        if math.isinf(v):
            return -6
        if v == int(v):
            return int(v)
        return -5
    if isinstance(v, str):
        return classes.index(v) if v in classes else 100 + RT.index(v)
    if isinstance(v, int):
        return v
    return -4


def kind_of(v):
    """0 finite number, 1 nan, 2 False/None, 3 infinite, 4 anything else"""
    if v is False or v is None:
        return 2
    if isinstance(v, Decimal):
        return 0 if v.is_finite() else (1 if v.is_nan() else 3)
    if isinstance(v, float):
        return 1 if math.isnan(v) else (3 if math.isinf(v) else 0)
    if isinstance(v, (int, Fraction)):
        return 0
    return 4


def sched_dates_exact(cfg, den, horizon_ticks):
    """do the float dates the real Schedule/Slotted objects generate equal the decimal tick dates up to the horizon?
    (schedule dates are computed by the Schedule in binary floating point, outside exact mode's reach)"""
    import netbuild
    with netbuild.time_den(den):
        for s in cfg['servers']:
            if not isinstance(s, dict):
                continue
            ends = s['ends'] if s['kind'] == 'sched' else s['slots']
            off = s.get('offset', 0)
            obj = netbuild._servers(s)
            obj.initialise()
            date_of = (lambda o: o.next_shift_change_date) if s['kind'] == 'sched' else (lambda o: o.next_slot_date)
            step = (lambda o: o.get_next_shift()) if s['kind'] == 'sched' else (lambda o: o.get_next_slot())
            i = 0
            # Schedule.initialise leaves next date = offset before the first get_next_shift; Slotted sets the first slot
            for _ in range(4000):
                dt = date_of(obj)
                if Fraction(Decimal(str(dt))) * den != int(Fraction(Decimal(str(dt))) * den):
                    return False
                if Fraction(Decimal(str(dt))) * den > horizon_ticks:
                    break
                step(obj)
    return True


class C20(Prop):
    id = 'C20'
    num = 20
    rule = ('runs: one case = one integer-tick configuration (regions core incl. non-pre-emptive priorities, renege, sched, '
            'schedpre, slotted, preempt, all; PS switched off) executed by the real engine with exact=k (k random in 10..30) on the grid '
            '1/4, 1/10, 1/1000 or 10^-8 (tiny samples whose str() is in exponent notation) and as the dyadic float (= tick) run, records compared by the extracted acceptor; non-trivial = '
            '>= 20 records, >= 40 Decimal date/duration fields compared, and >= 1 pair of consecutive events at the same date '
            '(a coincidence that must survive exact arithmetic); distinct = distinct (configuration hash, mode, k). '
            'dec: one case = a batch of 250 decimal operations compared with the extracted model (counted in '
            'mechanism_stats.decimal_ops_compared; non-trivial if >= 25 of them rounded). fold: one exact run whose arrival dates exceed '
            'the precision, compared with the model\'s running sums; non-trivial if >= 10 of its dates were rounded.')
    clause_text = {100: 'the discrete fields (ids, node, classes, destination, queue sizes, server, record type, nan/False pattern, '
                        'number of events, number of uniform draws, exception raised) of the exact run differ from the tick run, or a record is missing',
                   101: 'a date/duration of an exact-mode record is not a decimal.Decimal',
                   102: 'a date/duration of the exact run is not exactly the tick value * 10^-d (drift / binary expansion / wrong sum)',
                   103: 'a date/duration has more than k significant digits (not a value at the context precision)',
                   110: 'Python decimal operation disagrees with the Gallina model (add_k / of_lit / scan / dec_cmp)',
                   111: 'arrival dates of a low-precision exact run are not the model\'s running sums add_k',
                   112: 'kernel (vm_compute) and extracted evaluation of the decimal model disagree',
                   220: 'every sampled value and timetable value of the run is a multiple of g, but a date or duration of a state or record of the real engine is not '
                        '(it is not in the additive group the samples generate: DateSum.run_many_grid / DateSum2.run_many_grid), or a record duration is not the difference of its dates'}
    level_text = ('Decimal.v theorems + T1 C20_sound; T2 on both engine models (DateSum.v, DateSum2.v: dates are sums of samples, grid theorems) evaluated on real snapshots '
                  'and records of scaled tick runs with K2 on the date slice; K1 conformance of real exact runs against the tick run; object differential vs decimal')
    assumptions = ['exact-mode inputs are decimal literals: every sample s satisfies Decimal(str(s)) = ticks/10^d (generator grids 1/4, 1/10, 1/1000, 10^-8)',
                   'the float run on the dyadic grid 1/4 is exact binary arithmetic and is used as the integer tick run',
                   'Schedule/Slotted shift dates are computed by the Schedule object in binary floating point; configurations whose '
                   'shift dates are not exact decimals within the horizon are discarded and counted (sched_float_inexact)',
                   'agreement with the float run on arbitrary doubles is reported (largest gap, structural divergences), not judged',
                   'an exception raised by the exact run only (the tick run of the same configuration finishing normally) is a mismatch (clause 100)',
                   'open finding F-20c: float schedule dates compared raw with Decimal event dates; divergent pairs with >= 1 such pseudo-tie '
                   'before the first differing record are reported as KNOWN-FINDING']

    REGIONS = {'quick': [('core', 60), ('renege', 40), ('sched', 40), ('schedpre', 14), ('slotted', 14), ('preempt', 14), ('all', 24), ('dyn', 14), ('dyn_preempt', 28)],
               'thorough': [('core', 1500), ('renege', 1000), ('sched', 1000), ('schedpre', 350), ('slotted', 350), ('preempt', 350),
                            ('all', 600), ('block', 300), ('dyn', 200), ('dyn_preempt', 300)]}

    def jobs(self, tier, seed):
        js = []
        regs = self.REGIONS[tier]
        i = 0
        for region, count in regs:
            for c in range(count):
                mode = ('grid', 'tenth', 'micro', 'third', 'grid', 'micro', 'tenth')[i % 7]
                js.append({'custom': 'runs', 'region': region, 'gseed': seed * 100003 + i, 'mode': mode,
                           'size': 'quick' if (tier == 'quick' or i % 4) else 'big'})
                i += 1
        for b in range(40 if tier == 'quick' else 1600):
            js.append({'custom': 'dec', 'dseed': seed * 7919 + b, 'nops': 250})
        for b in range(24 if tier == 'quick' else 600):
            js.append({'custom': 'fold', 'dseed': seed * 7919 + b})
        js.append({'custom': 'kernel', 'dseed': seed, 'ncases': 24 if tier == 'quick' else 200})
        # interleave so that want_sample / want_kernel (assigned by position) hit every kind
        rng = random.Random('c20/jobs/%d' % seed)
        rng.shuffle(js)
        return js

    # -------------------------------------------------------------- dispatch
    def custom_work(self, job, drv):
        kind = job['custom']
        if kind == 'dec':
            return self.work_dec(job, drv)
        if kind == 'runs':
            return self.work_runs(job, drv)
        if kind == 'fold':
            return self.work_fold(job, drv)
        if kind == 'kernel':
            return self.work_kernel(job, drv)
        raise ValueError(kind)

    # -------------------------------------------------------------- (a) object-level differential
    def work_dec(self, job, drv):
        rng = random.Random('c20/dec/%d' % job['dseed'])
        res = {'region': 'decimal-object-diff', 'gseed': job['dseed'], 'hash': 'dec%d' % job['dseed'], 'nframes': job['nops'],
               'exc': None, 'status': 'ok'}
        st = {'decimal_ops_compared': 0, 'adds_rounded': 0, 'adds_exact_ties': 0, 'literals_compared': 0, 'scans_compared': 0,
              'comparisons_compared': 0}
        bad = None
        sample = []
        for i in range(job['nops']):
            k = rng.randint(10, 30)
            getcontext().prec = k
            which = rng.random()
            if which < 0.7:
                (m1, e1), (m2, e2) = gen_op(rng, k)
                a, b = pair_dec(m1, e1), pair_dec(m2, e2)
                if rng.random() < 0.25:
                    py = a - b
                    m2 = -m2
                else:
                    py = a + b
                v = drv.ask('m200', sx.dump([k, m1, e1, m2, e2]))
                exp = sx.dump(dec_pair(py))
                st['decimal_ops_compared'] += 1
                exact = Fraction(pair_dec(m1, e1)) + Fraction(pair_dec(m2, e2))
                if Fraction(py) != exact:
                    st['adds_rounded'] += 1
                    if abs(Fraction(py) - exact) * 2 == Fraction(10) ** py.as_tuple().exponent:
                        st['adds_exact_ties'] += 1
                if v[0] != 'M' or v[1] != exp:
                    bad = {'op': 'add', 'k': k, 'a': [m1, e1], 'b': [m2, e2], 'python': exp, 'model': v[1] if v[0] == 'M' else v}
                if len(sample) < 3 and Fraction(py) != exact:
                    sample.append({'k': k, 'a': str(a), 'b': str(pair_dec(m2, e2)), 'python_sum': str(py), 'model': v[1]})
                # comparison of the same operands
                if rng.random() < 0.3:
                    bb = pair_dec(m2, e2)
                    c = (a > bb) - (a < bb)
                    v2 = drv.ask('m203', sx.dump([m1, e1, m2, e2]))
                    st['comparisons_compared'] += 1
                    if v2[0] != 'M' or v2[1] != str(c):
                        bad = {'op': 'cmp', 'a': [m1, e1], 'b': [m2, e2], 'python': c, 'model': v2}
            elif which < 0.9:
                # Decimal(str(x)) for a float x, as exactnode.py builds every value
                r = rng.random()
                if r < 0.4:
                    x = rng.randrange(0, 4000) / rng.choice([4, 10, 100, 1000, 8, 3])
                elif r < 0.6:
                    x = rng.uniform(-1e3, 1e3)
                elif r < 0.8:
                    x = rng.uniform(0, 1) * 10.0 ** rng.randint(-12, 22)
                else:
                    x = float(rng.randrange(0, 10 ** rng.randint(1, 20)))
                s = str(x)
                parts = lit_parts(s)
                py = Decimal(s)
                v = drv.ask('m201', sx.dump(parts))
                st['literals_compared'] += 1
                st['decimal_ops_compared'] += 1
                if v[0] != 'M' or v[1] != sx.dump(dec_pair(py)):
                    bad = {'op': 'of_lit', 'literal': s, 'parts': parts, 'python': dec_pair(py), 'model': v}
            else:
                # running sums, as ArrivalNode does: date <- date + sample at precision k
                n = rng.randint(3, 25)
                nd = rng.choice([3, 6, k - 2, k, k + 3])
                ops = [(rng.randrange(0, 10 ** nd), rng.choice([-2, -3, -6, -9])) for _ in range(n)]
                acc = pair_dec(*ops[0])
                pys = []
                for m, e in ops[1:]:
                    acc = acc + pair_dec(m, e)
                    pys.append(dec_pair(acc))
                v = drv.ask('m202', sx.dump([k, list(ops[0]), [list(o) for o in ops[1:]]]))
                st['scans_compared'] += 1
                st['decimal_ops_compared'] += n - 1
                if v[0] != 'M' or v[1] != sx.dump(pys):
                    bad = {'op': 'scan', 'k': k, 'operands': ops, 'python': pys, 'model': v}
            if bad:
                break
        getcontext().prec = 28
        res['stats'] = st
        res['nontrivial'] = st['adds_rounded'] >= 25
        if bad:
            res['verdict'] = ('R', 0, 110, [])
            res['cfg'] = {'decimal_diff': bad, 'replay_job': {'custom': 'dec', 'dseed': job['dseed'], 'nops': job['nops']}}
            res['finding'] = None
            res['detail'] = bad
        else:
            res['verdict'] = ('A', [st['decimal_ops_compared']])
        if job.get('want_sample'):
            res['sample'] = {'kind': 'decimal operations vs Gallina add_k', 'rounded_examples': sample, 'counts': st}
        return res

    # -------------------------------------------------------------- kernel cross-check of the decimal model
    def work_kernel(self, job, drv):
        """the same add_k / of_lit cases evaluated by vm_compute inside coqc and by the extracted binary"""
        rng = random.Random('c20/kernel/%d' % job['dseed'])
        cases = []
        for i in range(job['ncases']):
            k = rng.randint(10, 30)
            (m1, e1), (m2, e2) = gen_op(rng, k)
            cases.append((200, [k, m1, e1, m2, e2]))
        cases.append((201, lit_parts('137.250')))
        cases.append((201, lit_parts('-1.5e-07')))
        cases.append((202, [10, [99999999, -4], [[123456789, -6], [5, -7], [5, -7]]]))
        ext = []
        for num, tree in cases:
            v = drv.ask('m%d' % num, sx.dump(tree))
            ext.append(v[1] if v[0] == 'M' else repr(v))
        d = os.path.join(COQ, 'cases')
        os.makedirs(d, exist_ok=True)
        fn = os.path.join(d, 'k_C20m_%d.v' % os.getpid())
        with open(fn, 'w') as f:
            f.write('From Coq Require Import ZArith List.\nFrom CiwV Require Import Sx Dispatch.\nImport ListNotations.\nOpen Scope Z_scope.\n')
            f.write('Eval vm_compute in [%s].\n' % '; '.join('dispatch_model %d (%s)' % (num, sx.to_coq(tree)) for num, tree in cases))
        flags = open(os.path.join(COQ, '_CoqProject')).read().split('\n')
        qflags = ' '.join(l for l in flags if l.startswith('-Q'))
        r = subprocess.run('timeout 300 coqc %s %s' % (qflags, fn), shell=True, cwd=COQ, capture_output=True, text=True)
        for extn in ('.v', '.vo', '.glob', '.vok', '.vos'):
            try:
                os.remove(fn[:-2] + extn)
            except OSError:
                pass
        try:
            os.remove(os.path.join(d, '.k_C20m_%d.aux' % os.getpid()))
        except OSError:
            pass
        res = {'region': 'decimal-kernel-crosscheck', 'gseed': job['dseed'], 'hash': 'kern%d' % job['dseed'], 'nframes': len(cases),
               'exc': None, 'status': 'ok', 'nontrivial': False, 'stats': {'kernel_model_cases': len(cases)}}
        ker = None
        if r.returncode == 0 and '=' in r.stdout:
            body = r.stdout.split('=', 1)[1].rsplit(':', 1)[0]
            # print the kernel's sx terms in wire syntax:  A n -> n ; A (-n) -> -n ; L [a; b] -> (a b)
            t = re.sub(r'\s+', ' ', body)
            t = re.sub(r'A \((-?\d+)\)', r'\1', t)
            t = re.sub(r'A (-?\d+)', r'\1', t)
            t = t.replace('L [', '(').replace('[', '(').replace(']', ')').replace(';', ' ')
            t = re.sub(r'\s+', ' ', t).strip()
            try:
                ker = [sx.dump(x) for x in parse_m(t)]
            except Exception:
                ker = None
        if ker is not None and ker == ext:
            res['verdict'] = ('A', [len(cases)])
            res['stats']['kernel_model_agree'] = len(cases)
        else:
            res['verdict'] = ('R', 0, 112, [])
            res['cfg'] = {'kernel': ker, 'extracted': ext, 'coqc': (r.stdout + r.stderr)[-600:],
                          'replay_job': {'custom': 'kernel', 'dseed': job['dseed'], 'ncases': job['ncases']}}
            res['finding'] = None
            res['detail'] = 'vm_compute and the extracted binary disagree on the decimal model (or coqc failed)'
        if job.get('want_sample'):
            res['sample'] = {'kind': 'kernel cross-check of add_k/of_lit/scan', 'cases': len(cases), 'first': [cases[0][1], ext[0]]}
        return res

    # -------------------------------------------------------------- (b) K1 on real runs
    def build_cfg(self, job):
        import gen
        if job.get('explicit'):
            # corpus witness: the configuration (integer ticks) is given, not generated
            cfg = dict(job.get('base_cfg') or job['cfg'])
            cfg.pop('replay_job', None)
        else:
            cfg = gen.gen(job['region'], job['gseed'], job.get('size', 'quick'))
        cfg.pop('ps', None)
        cfg.pop('ps_thr', None)
        cfg.pop('tracker', None)
        cfg.pop('detector', None)
        D, d, mult, f = MODES[job['mode']][:4]
        fs = MODES[job['mode']][4] if len(MODES[job['mode']]) > 4 else f
        T = cfg['run'][1] if cfg['run'][0] == 'time' else 120
        T2 = fs(T)
        # the horizon is passed to the engine as a float: keep it an integer number of time units so that
        # "date < max_time" means the same in both runs
        T2 = ((T2 + D - 1) // D) * D
        cfg = remap_cfg(cfg, f, T2, fs)
        if job['mode'] == 'grid':
            assert T2 % 4 == 0
        return cfg, D, d, mult

    def project_pair(self, A, B, k, d, mult, classes):
        """-> (tree for the acceptor, meta per record, number of Decimal fields compared, inexact flag)"""
        recs = []
        meta = []
        nfields = 0
        maxdig = 0
        ka = {(i, j): r for i, j, r in A['recs']}
        kb = {(i, j): r for i, j, r in B['recs']}
        keys = sorted(set(ka) | set(kb))
        for key in keys:
            ra, rb = ka.get(key), kb.get(key)
            if ra is None or rb is None:
                recs.append([[1 if ra is not None else 0], [1 if rb is not None else 0], []])
                meta.append({'key': key, 'missing_in': 'exact run' if ra is None else 'tick run'})
                continue
            da = [enc_disc(getattr(ra, f), classes) for f in DISC_FIELDS]
            db = [enc_disc(getattr(rb, f), classes) for f in DISC_FIELDS]
            fl = []
            fnames = []
            for f in TIME_FIELDS:
                x, y = getattr(ra, f), getattr(rb, f)
                kx, ky = kind_of(x), kind_of(y)
                da.append(kx)
                db.append(ky)
                if kx == 0 and ky == 0:
                    t = Fraction(y) * 4
                    if t.denominator != 1:
                        return None, None, 0, True
                    if type(x) is Decimal:
                        m, e = dec_pair(x)
                        fl.append([1, m, e, int(t) * mult])
                        maxdig = max(maxdig, len(str(abs(m))))
                    else:
                        fl.append([0, 0, 0, int(t) * mult])
                    fnames.append(f)
                    nfields += 1
            recs.append([da, db, fl])
            meta.append({'key': key, 'fields': fnames, 'exact': {f: str(getattr(ra, f)) for f in TIME_FIELDS},
                         'tick_run': {f: str(getattr(rb, f)) for f in TIME_FIELDS}})
        # run-level pseudo record: number of executed events, uniform draws consumed, number of records
        recs.append([[A['nev'], A['unif'], len(A['recs']), 1 if A['exc'] else 0], [B['nev'], B['unif'], len(B['recs']), 0], []])
        meta.append({'key': 'run totals (events, uniform draws, records, exception raised)', 'exact_run_exception': A['exc']})
        return [k, d, recs], meta, nfields, False

    def work_runs(self, job, drv):
        cfg, D, d, mult = self.build_cfg(job)
        base_cfg = (dict(job.get('base_cfg') or job['cfg']) if job.get('explicit') else None)
        import framework
        rng = random.Random('c20/k/%s/%d' % (job['region'], job['gseed']))
        k = job.get('k') or rng.choice([10, 11, 12, 14, 17, 20, 26, 28, 30, rng.randint(10, 30)])
        if job['mode'] == 'micro' and not job.get('k'):
            k = rng.randint(20, 30)     # dates need up to ~11 digits in units of 10^-8: no rounding at these precisions
        maxev = MAX_EVENTS[job.get('size', 'quick')]
        res = {'region': '%s/%s' % (job['region'], job['mode']), 'gseed': job['gseed'],
               'hash': '%s/%s/%d' % (framework.cfg_hash(cfg), job['mode'], k), 'exc': None, 'status': 'ok', 'nontrivial': False,
               'stats': {}, 'nframes': 0}
        rj = {'custom': 'runs', 'region': job['region'], 'gseed': job['gseed'], 'mode': job['mode'], 'size': job.get('size', 'quick'), 'k': k}
        if base_cfg is not None:
            base_cfg.pop('replay_job', None)
            rj.update(explicit=True, base_cfg=base_cfg)
        st = res['stats']
        # configurations Ciw itself rejects never reach the comparison
        try:
            import netbuild
            netbuild.make_network(cfg)
        except Exception as e:
            res['status'] = 'cfg_rejected'
            return res
        if D != 4 and not sched_dates_exact(cfg, D, cfg['run'][1]):
            st['sched_float_inexact_discarded'] = 1
            res['verdict'] = ('A', [])
            res['skipped'] = 'sched_float_inexact'
            return res
        B = run_once(cfg, 4, False, maxev)
        if B['exc'] is not None:
            # the float engine itself fails on this configuration (other properties' findings): no tick run to compare with
            st['tick_run_exception_skipped'] = 1
            res['verdict'] = ('A', [])
            res['skipped'] = 'tick_run_exception %s' % (B['exc'],)
            return res
        A = run_once(cfg, D, k, maxev)
        getcontext().prec = 28
        if A['exc'] is not None:
            res['exc'] = A['exc']
        tree, meta, nfields, inexact = self.project_pair(A, B, k, d, mult, A['classes'])
        if inexact:
            res['status'] = 'inexact'
            return res
        res['nframes'] = A['nev']
        v = drv.ask(self.num, sx.dump(tree))
        res['verdict'] = v
        st.update({'records_compared': len(tree[2]) - 1, 'decimal_fields_compared': nfields, 'events_exact_runs': A['nev'],
                   'simultaneous_event_pairs': B['ties'], 'uniform_draws': B['unif'], 'runs_mode_' + job['mode']: 1})
        if A['exc'] is not None:
            st['exact_run_exceptions'] = 1
        res['nontrivial'] = (v[0] == 'A' and len(A['recs']) >= 20 and nfields >= 40 and B['ties'] >= 1)
        # (c) the float run on the same non-dyadic values: reported only
        if D != 4 and v[0] == 'A':
            C = run_once(cfg, D, False, maxev)
            gap = Fraction(0)
            diverged = 0
            if C['exc'] is None:
                kc = {(i, j): r for i, j, r in C['recs']}
                ka = {(i, j): r for i, j, r in A['recs']}
                if set(kc) != set(ka) or C['nev'] != A['nev']:
                    diverged = 1
                for key, ra in ka.items():
                    rc = kc.get(key)
                    if rc is None:
                        continue
                    if any(enc_disc(getattr(ra, f), A['classes']) != enc_disc(getattr(rc, f), A['classes']) for f in DISC_FIELDS):
                        diverged = 1
                        break
                    for f in TIME_FIELDS:
                        x, y = getattr(ra, f), getattr(rc, f)
                        if kind_of(x) == 0 and kind_of(y) == 0:
                            g = abs(Fraction(x) - Fraction(y))
                            if g * 2 * D >= 1:
                                diverged = 1      # off by half a tick or more: another order of events, not rounding
                            elif g > gap:
                                gap = g
                st['float_runs_compared'] = 1
                st['float_runs_structurally_diverged'] = diverged
                if not diverged:
                    # same events, same customers, same order: the numeric gap is pure binary rounding
                    st['float_runs_same_structure_with_rounding_gap'] = 1 if gap > 0 else 0
                    res['gap'] = float(gap)
                res['gap_diverged'] = diverged
        st['float_date_pseudo_ties'] = A['pseudo']
        # (d) dates are sums of SAMPLED VALUES and nothing else: the T2 theorems of Inv/DateSum.v / DateSum2.v on the real engine
        if v[0] == 'A' and A['exc'] is None and not job.get('explicit'):
            gm = self.grid_run(job, drv, st)
            if gm is not None:
                if gm.get('what', '').startswith('grid'):
                    # a concrete failing input: every sample and timetable value is a multiple of g, a date / duration of the run is not
                    v = ('R', gm.get('frame') or 0, 220, [])
                    res['verdict'] = v
                    res['cfg'] = dict(gm['cfg'], replay_job=rj)
                    res['finding'] = None
                    res['detail'] = {k_: x for k_, x in gm.items() if k_ != 'cfg'}
                    res['nontrivial'] = False
                    return res
                res['soft'] = {'clause': 900, 'frame': gm.get('frame'), 'k2': {k_: x for k_, x in gm.items() if k_ != 'cfg'}, 'cfg': gm['cfg'], 'finding': None,
                               'detail': {k_: x for k_, x in gm.items() if k_ != 'cfg'}}
        if v[0] != 'A':
            res['cfg'] = dict(cfg, exact=k, c20_mode=job['mode'], replay_job=rj)
            res['finding'] = self.match_finding(A, B, D, mult, k, d)
            idx = v[1] if v[0] == 'R' else None
            res['detail'] = {'record': meta[idx] if idx is not None and idx < len(meta) else None,
                             'field': (meta[idx].get('fields') or [None] * 9)[v[3][0]] if (v[0] == 'R' and v[2] != 100 and v[3] and idx < len(meta)
                                                                                          and v[3][0] < len(meta[idx].get('fields') or [])) else None,
                             'exact_run_exception': A['exc'], 'k': k, 'ticks_per_unit': D,
                             'events': [A['nev'], B['nev']], 'uniform_draws': [A['unif'], B['unif']],
                             'records': [len(A['recs']), len(B['recs'])]}
        if job.get('want_sample'):
            r0 = A['recs'][len(A['recs']) // 2][2] if A['recs'] else None
            res['sample'] = {'kind': 'exact run vs tick run', 'region': job['region'], 'gen_seed': job['gseed'], 'mode': job['mode'], 'exact': k,
                             'ticks_per_unit': D, 'records': len(A['recs']), 'events': A['nev'], 'decimal_fields': nfields,
                             'simultaneous_event_pairs': B['ties'], 'a_record': ({f: str(getattr(r0, f)) for f in TIME_FIELDS} if r0 else None),
                             'verdict': list(v[:1]), 'exception_after_last_event': A['exc']}
        if job.get('want_kernel') and v[0] in ('A', 'R'):
            text = sx.dump(tree)
            res['kernel_case'] = sx.to_coq(tree) if len(text) < 30000 else None
        return res

    # the slice of the engine state / records C20 reads: every date and duration (the same slice as C02)
    k2_dates = {('top', 'now'), ('top', 'next_active'), ('arr', 'dates'), ('arr', 'next_date'), ('server', 'next_end'), ('server', 'busy_time'), ('server', 'total_time'),
                ('node', 'next_date'), ('ind', 'send'), ('ind', 'sst'), ('ind', 'stime'), ('ind', 'arr'), ('ind', 'exit'), ('rec', 'arr'), ('rec', 'wait'), ('rec', 'sst'),
                ('rec', 'stime'), ('rec', 'send'), ('rec', 'blocked'), ('rec', 'exit'), ('rec', '*')}

    def grid_run(self, job, drv, st):
        """The generated integer-tick configuration with EVERY time value (samples, timetables, horizon) multiplied by g in {3, 7, 10, 11} is run
        by the real engine under observation; then (i) K2: the Gallina engine model (stage 1 or 2) is stepped from the implementation's own
        snapshots and draws and must agree on the date slice, (ii) T2 on real data: the extracted booleans DateSum.ds_b / DateSum2.ongrid_b,
        logon_b, grid_b, drawson_b (dispatch_model 43 / 42) say that the hypotheses of the grid theorems hold (samples and timetable multiples
        of g) and that every date and duration of every snapshot and every record is a multiple of g, i.e. lies in the additive group the
        samples generate: no constant, no rounding, no other operation has touched a date.  -> None, or the mismatch (with 'cfg')."""
        import gen, netbuild, engine_k2, engine_k2b
        cfg0 = gen.gen(job['region'], job['gseed'], job.get('size', 'quick'))
        for key in ('ps', 'ps_thr', 'tracker', 'detector'):
            cfg0.pop(key, None)
        rng = random.Random('c20/g/%s/%d' % (job['region'], job['gseed']))
        g = rng.choice([3, 7, 10, 11])
        T = cfg0['run'][1] if cfg0['run'][0] == 'time' else 120
        cfgG = remap_cfg(cfg0, lambda t: t * g, T * g)
        nfr = 120 if job.get('size', 'quick') == 'quick' else 400
        cfgG['max_frames'] = nfr
        try:
            tr = netbuild.run_cfg(cfgG, max_frames=nfr)
        except Exception as e:
            st['grid_runs_skipped'] = 1
            return None
        if getattr(tr, 'rejected', False) or tr.init is None or tr.exc is not None:
            st['grid_runs_skipped'] = 1          # the engine itself fails on this configuration (other properties' findings)
            return None
        if engine_k2.in_scope(cfgG):
            k2 = engine_k2.check_trace(tr, drv, max_frames=nfr, mask=self.k2_dates, inv_mask=set(), grid=g)
            st['grid_runs_stage1'] = 1
        elif engine_k2b.in_scope(cfgG):
            k2 = engine_k2b.check_trace(tr, drv, max_frames=nfr, mask=self.k2_dates, inv_mask=set(), grid=g)
            st['grid_runs_stage2'] = 1
        else:
            st['grid_runs_skipped'] = 1
            return None
        st['grid_k2_frames'] = k2['frames']
        st['grid_real_snapshots_on_the_grid'] = k2.get('grid_frames', 0)
        st['grid_g_%d' % g] = 1
        if k2['mismatch']:
            m = dict(k2['mismatch'])
            if 'invariants' in m:
                # an invariant of ANOTHER property fails on a real snapshot: not C20's slice
                st['grid_other_invariant'] = 1
                return None
            m['cfg'] = dict(cfgG, c20_grid=g)
            return m
        return None

    def match_finding(self, A, B, D, mult, k, d):
        """F-20c (only if it is an OPEN entry of known_findings.json): the exact run compared a Decimal event date with a
        binary-float schedule date of the same decimal value as unequal, and no record that ends before that moment differs"""
        import findings
        if 'F-20c' not in findings.open_ids('C20') or not A['pseudo'] or A['first_pseudo'] is None:
            return None
        t0 = Fraction(A['first_pseudo'])
        # F-20c explains a DIFFERENT BUT WELL-FORMED run (another order of simultaneous events): every date of the exact run
        # must still be a Decimal on the 10^-d grid with at most k digits, and the run must not have crashed
        if A['exc'] is not None:
            return None
        for _, _, r in A['recs']:
            for f in TIME_FIELDS:
                x = getattr(r, f)
                if kind_of(x) == 0 and (type(x) is not Decimal or (Fraction(x) * D).denominator != 1 or len(x.as_tuple().digits) > k):
                    return None
        ka = {(i, j): r for i, j, r in A['recs']}
        kb = {(i, j): r for i, j, r in B['recs']}
        for key in set(ka) | set(kb):
            ra, rb = ka.get(key), kb.get(key)
            same = ra is not None and rb is not None
            if same:
                for f in DISC_FIELDS:
                    if enc_disc(getattr(ra, f), A['classes']) != enc_disc(getattr(rb, f), A['classes']):
                        same = False
                for f in TIME_FIELDS:
                    x, y = getattr(ra, f), getattr(rb, f)
                    if kind_of(x) != kind_of(y) or (kind_of(x) == 0 and (type(x) is not Decimal or Fraction(x) * D != Fraction(y) * 4)):
                        same = False
            if not same:
                # the differing record must not be complete before the first pseudo-tie
                ends = []
                if ra is not None and kind_of(ra.exit_date) == 0:
                    ends.append(Fraction(ra.exit_date))
                if rb is not None and kind_of(rb.exit_date) == 0:
                    ends.append(Fraction(rb.exit_date) * 4 / D)
                if not ends or min(ends) < t0:
                    return None
        return 'F-20c'

    # -------------------------------------------------------------- fold: rounding inside a real run
    def work_fold(self, job, drv):
        import obs, netbuild
        ciw = obs.ciw
        rng = random.Random('c20/fold/%d' % job['dseed'])
        k = rng.choice([10, 10, 11, 12])
        nfrac = rng.choice([5, 6])
        nvals = rng.randint(3, 9)
        # every literal has at most 10 <= k digits (a sample with more digits than the precision makes service end before
        # it starts); the running sums soon need more than k digits and are rounded at every arrival
        lits = ['%d.%0*d' % (rng.randint(40, 9000), nfrac, rng.randrange(10 ** nfrac)) for _ in range(nvals)]
        vals = [float(s) for s in lits]
        strs = [str(v) for v in vals]
        ncust = rng.randint(40, 90)
        res = {'region': 'low-precision-fold', 'gseed': job['dseed'], 'hash': 'fold%d' % job['dseed'], 'exc': None, 'status': 'ok',
               'stats': {'fold_runs': 1}, 'nframes': ncust}
        obs.install_shim()
        obs.OBS.reset()
        obs.OBS.on = False
        try:
            ciw.seed(job['dseed'])
            N = ciw.create_network(arrival_distributions=[obs.Scripted(vals, 'arr', 1, 0)],
                                   service_distributions=[ciw.dists.Deterministic(0.0)], number_of_servers=[float('inf')])
            Q = ciw.Simulation(N, exact=k)
            Q.simulate_until_max_customers(ncust, method='Finish')
            recs = sorted(Q.get_all_records(), key=lambda r: r.id_number)
            dates = [r.arrival_date for r in recs][:ncust]
        except Exception as e:
            res['exc'] = obs.repo_site(e)
            dates = None
        finally:
            obs.OBS.on = True
            getcontext().prec = 28
        if dates is None or len(dates) < ncust or not all(type(x) is Decimal for x in dates):
            res['verdict'] = ('R', 0, 111, [])
            res['cfg'] = {'fold': {'k': k, 'samples': strs, 'customers': ncust}, 'problem': 'run failed or dates are not Decimals',
                          'exc': res['exc'], 'replay_job': {'custom': 'fold', 'dseed': job['dseed']}}
            res['finding'] = None
            res['detail'] = res['cfg']['problem']
            res['nontrivial'] = False
            return res
        # the model: literals through of_lit, then running sums at precision k
        ops = []
        for i in range(ncust):
            v = drv.ask('m201', sx.dump(lit_parts(strs[i % nvals])))
            ops.append(parse_m(v[1]) if v[0] == 'M' else None)
        v = drv.ask('m202', sx.dump([k, ops[0], ops[1:]]))
        impl = [dec_pair(x) for x in dates]
        model = ([ops[0]] + parse_m(v[1])) if v[0] == 'M' else None
        exact = Fraction(0)
        rounded = 0
        for i, x in enumerate(dates):
            exact += Fraction(strs[i % nvals])
            if Fraction(x) != exact:
                rounded += 1
        res['stats'].update({'fold_dates_compared': ncust, 'fold_dates_rounded': rounded})
        res['nontrivial'] = rounded >= 10
        if model == impl:
            res['verdict'] = ('A', [ncust])
        else:
            first = next((i for i in range(min(len(impl), len(model or []))) if impl[i] != model[i]), None)
            res['verdict'] = ('R', first or 0, 111, [])
            res['cfg'] = {'fold': {'k': k, 'samples': strs, 'customers': ncust}, 'first_difference': first,
                          'impl': impl[first] if first is not None else None, 'model': model[first] if (model and first is not None) else None,
                          'replay_job': {'custom': 'fold', 'dseed': job['dseed']}}
            res['finding'] = None
            res['detail'] = 'arrival date %s of the exact=%d run is not the model\'s running sum' % (first, k)
        if job.get('want_sample'):
            res['sample'] = {'kind': 'low-precision exact run vs model running sums', 'exact': k, 'samples': strs, 'customers': ncust,
                             'dates_rounded': rounded, 'last_date': str(dates[-1]), 'exact_sum': str(float(exact))}
        return res

    # -------------------------------------------------------------- evidence extras
    def extra_coverage(self, results):
        gaps = [r['gap'] for r in results if isinstance(r, dict) and 'gap' in r]
        sk = {}
        for r in results:
            if isinstance(r, dict) and r.get('skipped'):
                key = r['skipped'].split(' ')[0]
                sk[key] = sk.get(key, 0) + 1
        ncmp = sum(1 for r in results if isinstance(r, dict) and 'gap_diverged' in r)
        return {'float_run_report': {'runs_compared_with_float_run_on_same_decimal_values': ncmp,
                                     'largest_gap_time_units_among_structurally_identical_runs': max(gaps) if gaps else 0.0,
                                     'runs_with_nonzero_gap': sum(1 for g in gaps if g > 0),
                                     'runs_structurally_diverged_from_exact_run': sum(1 for r in results if isinstance(r, dict) and r.get('gap_diverged')),
                                     'note': 'reported, not judged: binary rounding is outside the model'},
                'skipped_runs': sk}

    def explain(self, tr, v):
        return None


PROP = C20()

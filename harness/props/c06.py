"""C06 finite capacity and admission: projection (replayable admission/transfer events)."""
from framework import Prop


def true_cap(cfg, j, c_now=None):
    q = (cfg.get('qcap') or ['inf'] * cfg['n'])[j]
    s = cfg['servers'][j]
    if q == 'inf' or s == 'inf':
        return 'inf'
    if isinstance(s, int):
        return q + s
    if s['kind'] == 'slotted':
        return q          # slotted nodes have no servers
    return q + (c_now if c_now is not None else 0)


def bounds(cfg):
    return [true_cap(cfg, j) if not isinstance(cfg['servers'][j], dict) else 'inf' for j in range(cfg['n'])]


def events(cfg, cev, prev):
    out = []
    for i, e in enumerate(cev):
        k = e[0]
        if k == 'Spawn':
            node, ident = e[1], e[2]
            decision = 1
            for e2 in cev[i + 1:]:
                if e2[0] == 'Spawn':
                    break
                if e2[0] == 'Reject' and e2[2] == ident:
                    decision = 0
                    break
            cap = true_cap(cfg, node - 1, prev['nodes'][node - 1]['c'] if prev['nodes'][node - 1]['c'] != 'inf' else None)
            sc = cfg.get('syscap', 'inf')
            out.append([1, node, e[4], cap, e[6], sc if sc is not None else 'inf', decision])
        elif k == 'Enter':
            out.append([2, e[1], 2 if e[6] == ('arrival',) else 0])
        elif k == 'Release':
            out.append([3, e[1]])
        elif k == 'Renege':
            out.append([3, e[1]])
        elif k == 'Record' and e[3]['type'] == 4:
            out.append([4, e[1], e[3]['queue_size_at_arrival']])
    return out


def pops(s):
    return [sum(len(q) for q in n['queues']) for n in s['nodes']]


class C06(Prop):
    id = 'C06'
    k2_mask = {('node', 'pop'), ('arr', 'created'), ('arr', 'accepted'), ('top', 'exit_n'), ('top', 'exit_ids'), ('rec', 'type'), ('rec', 'qa'), ('rec', '*')}      # the slice of the engine state / records this property reads (DESIGN 7, table of slices)
    k2_frames = 40
    k2_invs2 = {'blk2', 'wfx2'}         # the stage-2 T2 invariants (Inv/AllRun2.invs2_b) this property answers for on real snapshots
    k2_invs = {'wfx', 'cap'}          # the T2 invariants (Inv/AllRun.invs_b) this property answers for on real snapshots
    num = 6
    regions = {'quick': [('core', 120), ('block', 160), ('routers', 60), ('renege', 60), ('sched_block', 50), ('dyn', 30),
                         ('slotted', 20), ('ps', 20), ('all', 40)]}
    rule = ('one case = one observed run; non-trivial = the run had a rejection, an admission at population = capacity-1, '
            'and a transfer into a node with finite capacity; distinct = distinct configuration hashes')
    clause_text = {10: 'event names an unknown node', 11: 'population shown to the admission test differs from the true one',
                   12: 'system population shown differs from the true one', 13: 'admission decision is not "rejected iff full"',
                   14: 'a customer entered a full node', 15: 'a customer entered a full system',
                   16: 'a customer left an empty node', 17: 'rejection record shows a wrong queue size',
                   18: 'replayed populations differ from the observed ones', 19: 'initial state over capacity'}

    def project(self, tr):
        cfg = tr.cfg
        sc = cfg.get('syscap', 'inf')
        frames = [[pops(tr.init), []]]
        prev = tr.init
        for f in tr.frames:
            frames.append([pops(f['snap']), events(cfg, f['cev'], prev)])
            prev = f['snap']
        return [[bounds(cfg), sc if sc is not None else 'inf'], frames]

    def nontrivial(self, tr):
        rej = adm = tra = False
        for f in tr.frames:
            for e in f['cev']:
                if e[0] == 'Reject':
                    rej = True
                if e[0] == 'Enter' and isinstance(e[4], int):
                    if e[6] == ('arrival',) and e[3] == e[4] - 1:
                        adm = True
                    if e[6] != ('arrival',):
                        tra = True
        return rej and adm and tra

    def sample(self, tr):
        p = self.project(tr)
        fr = [x for x in p[1] if x[1]]
        return {'config': p[0], 'frames': len(p[1]), 'a_frame_with_events': fr[len(fr) // 2] if fr else None,
                'region': tr.cfg.get('region'), 'gen_seed': tr.cfg.get('gen_seed')}

    def stats(self, tr):
        return {'spawns': sum(1 for f in tr.frames for e in f['cev'] if e[0] == 'Spawn'),
                'rejections': sum(1 for f in tr.frames for e in f['cev'] if e[0] == 'Reject')}

    def explain(self, tr, v):
        if v[0] != 'R' or v[1] < 1:
            return None
        f = tr.frames[v[1] - 1]
        return {'frame': v[1], 'label': f['label'], 'events': events(tr.cfg, f['cev'], tr.frames[v[1] - 2]['snap'] if v[1] >= 2 else tr.init)[:20]}


PROP = C06()

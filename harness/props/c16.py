"""C16 pause/resume transparency: one call to T vs several successive calls ending at T on the same network and seed
(tie-free values), compared exactly on records, final clock, server busy/total times and utilisation."""
import random, copy
from framework import Prop

DEN = 65536          # time values are numerator / 65536 with random low bits: exact in binary64, ties practically impossible


def detie(cfg, rng):
    """replace every time value v (ticks of 1/4) by v*16384 + jitter (in 1/65536): same magnitudes, no coincidences"""
    def j(v):
        return v * 16384 + rng.randrange(1, 16384) if isinstance(v, int) else v
    for key in ('arr', 'svc', 'ren'):
        if cfg.get(key) is not None:
            cfg[key] = [[([j(v) for v in lst] if lst is not None else None) for lst in row] for row in cfg[key]]
    if cfg.get('cct') is not None:
        cfg['cct'] = [[([j(v) for v in lst] if lst is not None else None) for lst in row] for row in cfg['cct']]
    for s in cfg['servers']:
        if isinstance(s, dict):
            if s['kind'] == 'sched':
                s['ends'] = [e * 16384 + 16384 * 0 + (i + 1) * 7 for i, e in enumerate(s['ends'])]
                s['offset'] = s.get('offset', 0) * 16384
            else:
                s['slots'] = [e * 16384 + (i + 1) * 5 for i, e in enumerate(s['slots'])]
                s['offset'] = s.get('offset', 0) * 16384
    return cfg


def enc_rec(r):
    return [r['id'], r['cls'], r['ocls'], r['node'], r['type']] + \
           [r[f] for f in ('arrival_date', 'waiting_time', 'service_start_date', 'service_time', 'service_end_date', 'time_blocked', 'exit_date')] + \
           [r['destination'], r['queue_size_at_arrival'], r['queue_size_at_departure'], r['server_id']]


def outcome(tr):
    recs = [[i, tr.records[i][0], [enc_rec(r) for r in tr.records[i][1]]] for i in sorted(tr.records)]
    end = tr.run_ends[-1]
    fin = end['final']
    servers = []
    for n in fin['nodes']:
        servers.append([n['id'], [[s['id'], s['busy_time'], s['total_time']] for s in (n['servers'] or [])], n['all_busy'], n['all_total']])
    util = []
    for u in end['util']:
        if u is None or u[2] is None:
            util.append(None)
        else:
            a, b = float(u[2]).as_integer_ratio()
            util.append([a, b])
    return [recs, end['now'], servers, util]


class C16(Prop):
    id = 'C16'
    k2_mask = {('server', 'busy_time'), ('server', 'total_time'), ('server', 'wrapped'), ('server', '*'), ('top', 'now'), ('rec', '*'), ('rec', 'arr'), ('rec', 'sst'), ('rec', 'send'), ('rec', 'exit'), ('rec', 'server')}
    num = 16
    regions = {'quick': [('core', 1)]}
    rule = ('one case = one pair of observed runs of the same tie-free network and seed: a single simulate_until_max_time(T) and 2-5 successive '
            'calls with increasing horizons ending at T; pairs in which two executed events coincide in time are discarded and counted; '
            'non-trivial = some split point fell inside a busy period (a server was busy at the pause); distinct = distinct configuration hashes')
    clause_text = {210: 'the data records of the split run differ from those of the single run', 211: 'the final clock differs',
                   212: 'busy time / total time of a server (or of the retired servers) differs', 213: 'the reported utilisation differs',
                   214: 'one of the two runs raised an exception the other did not'}
    REG = ['core', 'block', 'routers', 'renege', 'preempt', 'sched', 'schedpre', 'slotted', 'dyn', 'all', 'renege_preempt', 'preempt_deep']

    def jobs(self, tier, seed):
        m = 420 if tier == 'quick' else 12000
        return [{'custom': 'pair', 'dseed': seed * 100003 + i, 'region': self.REG[i % len(self.REG)]} for i in range(m)]

    def custom_work(self, job, drv):
        import gen, netbuild, obs, sx
        rng = random.Random('c16/%d' % job['dseed'])
        cfg = job.get('cfg_pair')
        if cfg is None:
            cfg = gen.gen(job['region'], job['dseed'])
            cfg.pop('detector', None)
            cfg['ps'] = None
            cfg = detie(cfg, rng)
            T = rng.choice([20, 40, 60, 100]) * 16384 + rng.randrange(1, 16384)
            k = rng.choice([1, 1, 2, 3, 4])
            cuts = sorted(rng.sample(range(1, T), k))
            cfg['run_one'] = [['time', T]]
            cfg['run_split'] = [['time', c] for c in cuts] + [['time', T]]
            cfg['max_frames'] = None
        res = {'region': cfg.get('region'), 'gseed': job['dseed'], 'hash': 'p%d' % job['dseed'], 'exc': None, 'status': 'ok', 'stats': {}, 'nontrivial': False}
        old = obs.SCALE
        obs.SCALE = DEN
        try:
            with netbuild.time_den(DEN):
                a = netbuild.run_cfg(dict(cfg, run=cfg['run_one']))
                b = netbuild.run_cfg(dict(cfg, run=cfg['run_split']))
        finally:
            obs.SCALE = old
        res['nframes'] = len(a.frames)
        if getattr(a, 'rejected', False):
            res['status'] = 'cfg_rejected'
            return res
        if (a.exc and a.exc[0] == 'Inexact') or (b.exc and b.exc[0] == 'Inexact'):
            res['status'] = 'inexact'
            return res
        ties = sum(1 for x, y in zip(a.frames, a.frames[1:]) if x['now'] == y['now'])
        if ties:
            res['stats'] = {'pairs_discarded_for_ties': 1}
            res['verdict'] = ('A', [])
            res['nontrivial'] = False
            res['tie_discarded'] = True
            return res
        if a.exc or b.exc:
            same = (a.exc is not None and b.exc is not None and a.exc[:2] == b.exc[:2])
            res['exc'] = a.exc or b.exc
            res['verdict'] = ('A', []) if same else ('R', 0, 214, [])
            res['stats'] = {'pairs_with_exception_in_both': 1 if same else 0}
            if not same:
                res['cfg'] = {'replay_job': {'custom': 'pair', 'cfg_pair': cfg, 'dseed': job['dseed']}, 'exc_one': a.exc, 'exc_split': b.exc}
                res['finding'] = None
                res['detail'] = {'exc_one': a.exc, 'exc_split': b.exc}
            return res
        oa, ob = outcome(a), outcome(b)
        v = drv.ask(self.num, sx.dump([oa, ob]))
        res['verdict'] = v
        # K2: the engine model follows the split run event by event, including the wrap-up at every pause
        import engine_k2
        if v[0] == 'A' and engine_k2.in_scope(cfg):
            obs.SCALE = DEN
            try:
                k2 = engine_k2.check_trace(b, drv, max_frames=60, mask=self.k2_mask)
            finally:
                obs.SCALE = old
            res['k2'] = {'frames': k2['frames'], 'other': k2['other']}
            if k2['mismatch']:
                res['soft'] = {'clause': 900, 'frame': k2['mismatch'].get('frame'), 'k2': k2['mismatch'], 'finding': None, 'detail': k2['mismatch'],
                               'cfg': {'replay_job': {'custom': 'pair', 'cfg_pair': cfg, 'dseed': job['dseed']}}}
        busy_at_pause = any(s['busy'] for e in b.run_ends[:-1] for n in e['final']['nodes'] for s in (n['servers'] or []))
        res['nontrivial'] = bool(busy_at_pause) and len(a.frames) >= 10
        res['stats'] = {'pairs_compared': 1, 'calls_in_split_runs': len(cfg['run_split']), 'events_in_single_runs': len(a.frames),
                        'records_compared': sum(len(x[2]) for x in oa[0]), 'pairs_with_busy_server_at_a_pause': 1 if busy_at_pause else 0}
        if v[0] != 'A':
            res['cfg'] = {'replay_job': {'custom': 'pair', 'cfg_pair': cfg, 'dseed': job['dseed']}}
            res['finding'] = None
            diff = None
            if v[0] == 'R' and v[2] == 212:
                diff = [(x, y) for x, y in zip(oa[2], ob[2]) if x != y][:2]
            elif v[0] == 'R' and v[2] == 213:
                diff = [oa[3], ob[3]]
            res['detail'] = {'clause': v[2] if v[0] == 'R' else None, 'horizons': cfg['run_split'], 'first_difference': diff}
        if job.get('want_sample'):
            res['sample'] = {'horizons_split': [r[1] / DEN for r in cfg['run_split']], 'events': len(a.frames), 'final_clock': oa[1],
                             'servers_node1': oa[2][0] if oa[2] else None, 'utilisation_fractions': oa[3], 'region': cfg.get('region')}
        return res

    def project(self, tr, relaxed=False):
        raise NotImplementedError

    def extra_coverage(self, results):
        return {'pairs_discarded_for_ties': sum(1 for r in results if r.get('tie_discarded'))}


PROP = C16()

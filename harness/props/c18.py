"""C18 deadlock detection: projection of a simulate_until_deadlock run."""
import re
from framework import Prop

VRE = re.compile(r'Server (\d+) at Node (\d+)')


def vcode(node, sid):
    return node * 100000 + sid


def vname(s):
    m = VRE.match(s)
    return vcode(int(m.group(2)), int(m.group(1)))


def frame_of(s, now, states, relaxed):
    V = []
    for n in s['nodes']:
        for sv in (n['servers'] or []):
            V.append(vcode(n['id'], sv['id']))
    W = []
    for i, ind in s['inds'].items():
        if ind['blocked'] and ind['server'] is not None and ind['server'] >= 1 and ind['dest'] is not None and ind['dest'] >= 1:
            d = s['nodes'][ind['dest'] - 1]
            for sv in (d['servers'] or []):
                W.append([vcode(ind['node'], ind['server']), vcode(d['id'], sv['id'])])
    G = [[vname(a), vname(b)] for a, b in s.get('digraph', [])]
    key = repr(s['tracker'])
    if key not in states:
        states[key] = len(states)
    return [sorted(V), sorted(W), sorted(G), s.get('dd', 0), states[key], now]


class C18(Prop):
    id = 'C18'
    num = 18
    regions = {'quick': [('deadlock', 500)]}
    thorough_mult = 20
    soft_clauses = (90, 91)
    rule = ('one case = one observed simulate_until_deadlock run of a restricted network with finite integer servers '
            '(tracker chosen at random); non-trivial = the run stopped by itself in a deadlock that involves >= 2 nodes or a '
            'multi-server node; distinct = distinct configuration hashes')
    clause_text = {90: 'mechanism: the detector digraph differs from the true wait-for relation at a frame boundary',
                   91: 'mechanism: detect_deadlock (networkx knot search) disagrees with the structural definition on its own digraph',
                   92: 'soundness: the loop stopped in a state without a genuine deadlock',
                   93: 'completeness: the loop ran past a state with a genuine deadlock',
                   94: 'times_to_deadlock is not (deadlock time - first visit) >= 0 for every visited tracker state',
                   95: 'deadlock time is not the time of the last executed event'}

    def extra_corr(self, tr, drv):
        """the Coq definition Knot.deadlocked_b (a knot exists in the ENGINE MODEL's state; proved permanent: deadlock_is_permanent) evaluated
        on the real engine's snapshots, encoded as stage-1 engine states: it must agree with the structural verdict at every frame, and
        the hypotheses of the permanence theorem (SrvInv, Who) must hold"""
        import engine_k2, sx
        cfg = dict(tr.cfg)
        cfg.pop('detector', None)
        if not engine_k2.in_scope(cfg):
            return None
        ecfg = engine_k2.enc_cfg(cfg)
        st = {'deadlocked_b_evaluated_on_real_snapshots': 0, 'of_which_deadlocked': 0}
        frames = tr.frames[-60:]
        for k, f in enumerate(frames):
            if not isinstance(f['next_date'], int) and f['next_date'] != 'inf':
                continue
            nd = f['next_date'] if isinstance(f['next_date'], int) else f['now']
            if not isinstance(nd, int):
                continue
            state = engine_k2.enc_state(f['snap'], cfg, f['next'], nd)
            v = drv.ask('m39', sx.dump([ecfg, state]))
            o = engine_k2.parse(v[1]) if v[0] == 'M' else None
            if not isinstance(o, list) or len(o) != 2:
                return {'stats': st, 'mismatch': {'frame': len(tr.frames) - len(frames) + k + 1, 'what': 'Knot.run_deadlockedb could not read the snapshot', 'got': str(v)[:120]}}
            # the structural verdict on the TRUE wait-for relation of this snapshot (computed as the acceptor's input is)
            fr = frame_of(f['snap'], f['now'], {}, False)
            import networkx  # noqa: F401  (only to make the dependency explicit; the verdict below is the detector's own, checked by the acceptor)
            dd = 1 if f['snap'].get('dd') else 0
            st['deadlocked_b_evaluated_on_real_snapshots'] += 1
            st['of_which_deadlocked'] += o[0]
            if o[0] != dd or o[1] != 1:
                return {'stats': st, 'mismatch': {'frame': len(tr.frames) - len(frames) + k + 1, 'what': 'Knot.deadlocked_b on the real snapshot disagrees with the verdict at that frame, or the hypotheses of deadlock_is_permanent fail',
                                                  'deadlocked_b': o[0], 'hypotheses': o[1], 'verdict_at_frame': dd}}
        return {'stats': st}

    def jobs(self, tier, seed):
        js = super().jobs(tier, seed)
        for i in range(300 if tier == 'quick' else 20000):
            js.append({'custom': 'graph', 'dseed': seed * 7919 + i})
        return js

    def custom_work(self, job, drv):
        """networkx knot search (detect_deadlock) vs the Gallina pruning computation on a random digraph."""
        import random, sx, obs
        rng = random.Random('c18/%d' % job['dseed'])
        nv = rng.randint(1, 7)
        V = [vcode(1 + i // 3, 1 + i % 3) for i in range(nv)]
        ne = rng.randint(0, min(12, nv * nv))
        E = sorted(set((rng.choice(V), rng.choice(V)) for _ in range(ne)))
        det = obs.ciw.deadlock.StateDigraph()
        det.statedigraph.add_nodes_from(['v%d' % v for v in V])
        det.statedigraph.add_edges_from([('v%d' % a, 'v%d' % b) for a, b in E])
        nx = 1 if det.detect_deadlock() else 0
        G = [list(e) for e in E]
        fr = [V, G, G, nx, 0, 0]
        tree = [0, [V, [], [], 0, 0, 0], [fr], [nx, 0, [[0, 0]]]]
        v = drv.ask(self.num, sx.dump(tree))
        res = {'region': 'digraph-diff', 'gseed': job['dseed'], 'hash': 'g%d' % job['dseed'], 'nframes': 3, 'exc': None,
               'stats': {'digraphs_compared': 1, 'digraphs_with_knot': nx}, 'status': 'ok', 'nontrivial': len(E) >= 3, 'verdict': v}
        if v[0] != 'A':
            res['cfg'] = {'graph': [V, G], 'detect_deadlock': nx}
            res['finding'] = None
            res['detail'] = 'networkx knot search and the Gallina structural computation disagree on this digraph'
        if job.get('want_sample'):
            res['sample'] = {'digraph': G, 'vertices': V, 'detect_deadlock': nx}
        return res

    def project(self, tr, relaxed=False):
        states = {}
        f0 = frame_of(tr.init, 0, states, relaxed)      # Simulation.__init__ enters the initial state at time 0.0
        fr = [frame_of(f['snap'], f['now'], states, relaxed) for f in tr.frames]
        stopped = (not tr.stopped) and tr.exc is None
        ttd = []
        if stopped and getattr(tr, 'ttd', None) is not None:
            for k, v in tr.ttd:
                ttd.append([states.get(k, -1), v])
        tdead = tr.frames[-1]['now'] if tr.frames else 0
        return [1 if relaxed else 0, f0, fr, [1 if stopped else 0, tdead, ttd]]

    def nontrivial(self, tr):
        if tr.stopped or tr.exc is not None or not tr.frames:
            return False
        s = tr.frames[-1]['snap']
        nodes = set()
        multi = False
        for i, ind in s['inds'].items():
            if ind['blocked']:
                nodes.add(ind['node'])
                if len(s['nodes'][ind['node'] - 1]['servers'] or []) >= 2:
                    multi = True
        return len(nodes) >= 2 or multi

    def sample(self, tr):
        p = self.project(tr)
        return {'frames': len(p[2]), 'last_frame': p[2][-1] if p[2] else None, 'final': p[3], 'region': tr.cfg.get('region'),
                'gen_seed': tr.cfg.get('gen_seed'), 'servers': tr.cfg['servers'], 'qcap': tr.cfg['qcap']}

    def stats(self, tr):
        return {'deadlocks_reached': 1 if (not tr.stopped and tr.exc is None) else 0,
                'blockings': sum(1 for f in tr.frames for e in f['cev'] if e[0] == 'Block')}

    def explain(self, tr, v):
        if v[0] != 'R':
            return None
        k = v[1]
        f = tr.frames[k - 1] if 1 <= k <= len(tr.frames) else None
        return {'frame': k, 'label': f['label'] if f else None, 'now': f['now'] if f else None,
                'projected': frame_of(f['snap'], f['now'], {}, False) if f else None}


PROP = C18()

"""C18 deadlock detection: projection of a simulate_until_deadlock run."""
import re
from framework import Prop

VRE = re.compile(r'Server (\d+) at Node (\d+)')


def vcode(node, sid):
    return node * 100000 + sid


def vname(s):
    m = VRE.match(s)
    return vcode(int(m.group(2)), int(m.group(1)))


def frame_of(s, now, states, relaxed):
    V = []
    for n in s['nodes']:
        for sv in (n['servers'] or []):
            V.append(vcode(n['id'], sv['id']))
    W = []
    for i, ind in s['inds'].items():
        if ind['blocked'] and ind['server'] is not None and ind['server'] >= 1 and ind['dest'] is not None and ind['dest'] >= 1:
            d = s['nodes'][ind['dest'] - 1]
            for sv in (d['servers'] or []):
                W.append([vcode(ind['node'], ind['server']), vcode(d['id'], sv['id'])])
    G = [[vname(a), vname(b)] for a, b in s.get('digraph', [])]
    key = repr(s['tracker'])
    if key not in states:
        states[key] = len(states)
    return [sorted(V), sorted(W), sorted(G), s.get('dd', 0), states[key], now]


class C18(Prop):
    id = 'C18'
    num = 18
    regions = {'quick': [('deadlock', 500), ('deadlock_dynpre', 120)]}
    thorough_mult = 20
    soft_clauses = (90, 91)
    rule = ('one case = one observed simulate_until_deadlock run of a restricted network with finite integer servers '
            '(tracker chosen at random); non-trivial = the run stopped by itself in a deadlock that involves >= 2 nodes or a '
            'multi-server node; distinct = distinct configuration hashes')
    clause_text = {90: 'mechanism: the detector digraph differs from the true wait-for relation at a frame boundary',
                   91: 'mechanism: detect_deadlock (networkx knot search) disagrees with the structural definition on its own digraph',
                   92: 'soundness: the loop stopped in a state without a genuine deadlock',
                   93: 'completeness: the loop ran past a state with a genuine deadlock',
                   94: 'times_to_deadlock is not (deadlock time - first visit) >= 0 for every visited tracker state',
                   95: 'deadlock time is not the time of the last executed event',
                   96: 'genuineness: a deadlock was reported, the run was continued, and a customer of the reported deadlock (blocked, on a server of a node of the knot) later moved'}

    def extra_corr(self, tr, drv):
        """the Coq definition Knot.deadlocked_b (a knot exists in the ENGINE MODEL's state; proved permanent: deadlock_is_permanent) evaluated
        on the real engine's snapshots, encoded as stage-1 engine states: it must agree with the structural verdict at every frame, and
        the hypotheses of the permanence theorem (SrvInv, Who) must hold"""
        import engine_k2, sx
        cfg = dict(tr.cfg)
        cfg.pop('detector', None)
        if not engine_k2.in_scope(cfg):
            return None
        ecfg = engine_k2.enc_cfg(cfg)
        st = {'deadlocked_b_evaluated_on_real_snapshots': 0, 'of_which_deadlocked': 0}
        frames = tr.frames[-60:]
        for k, f in enumerate(frames):
            if not isinstance(f['next_date'], int) and f['next_date'] != 'inf':
                continue
            nd = f['next_date'] if isinstance(f['next_date'], int) else f['now']
            if not isinstance(nd, int):
                continue
            state = engine_k2.enc_state(f['snap'], cfg, f['next'], nd)
            v = drv.ask('m39', sx.dump([ecfg, state]))
            o = engine_k2.parse(v[1]) if v[0] == 'M' else None
            if not isinstance(o, list) or len(o) != 2:
                return {'stats': st, 'mismatch': {'frame': len(tr.frames) - len(frames) + k + 1, 'what': 'Knot.run_deadlockedb could not read the snapshot', 'got': str(v)[:120]}}
            # the structural verdict on the TRUE wait-for relation of this snapshot (computed as the acceptor's input is)
            fr = frame_of(f['snap'], f['now'], {}, False)
            import networkx  # noqa: F401  (only to make the dependency explicit; the verdict below is the detector's own, checked by the acceptor)
            dd = 1 if f['snap'].get('dd') else 0
            st['deadlocked_b_evaluated_on_real_snapshots'] += 1
            st['of_which_deadlocked'] += o[0]
            if o[0] != dd or o[1] != 1:
                return {'stats': st, 'mismatch': {'frame': len(tr.frames) - len(frames) + k + 1, 'what': 'Knot.deadlocked_b on the real snapshot disagrees with the verdict at that frame, or the hypotheses of deadlock_is_permanent fail',
                                                  'deadlocked_b': o[0], 'hypotheses': o[1], 'verdict_at_frame': dd}}
        return {'stats': st}

    AFTER_REGIONS = [('deadlock', 120), ('deadlock_renege', 90), ('deadlock_sched', 90)]

    def jobs(self, tier, seed):
        js = super().jobs(tier, seed)
        for i in range(300 if tier == 'quick' else 20000):
            js.append({'custom': 'graph', 'dseed': seed * 7919 + i})
        m = 1 if tier == 'quick' else 12
        i = 0
        for region, count in self.AFTER_REGIONS:
            for c in range(count * m):
                js.append({'custom': 'after', 'region': region, 'gseed': seed * 100003 + i})
                i += 1
        return js

    @staticmethod
    def knot_of(s):
        """the greatest set K of nodes with server objects all of which hold a customer blocked towards a node of K (the structural
        definition of the property, on a snapshot of the real engine) -> (K, {customer: (node, server)})"""
        holders = {}
        for i, ind in s['inds'].items():
            if ind['server'] is not None and ind['server'] >= 1:
                holders[(ind['node'], ind['server'])] = (i, ind)
        K = set(n['id'] for n in s['nodes'] if n['servers'])
        while True:
            drop = set()
            for j in K:
                for sv in s['nodes'][j - 1]['servers']:
                    h = holders.get((j, sv['id']))
                    if h is None or not h[1]['blocked'] or h[1]['dest'] not in K:
                        drop.add(j)
                        break
            if not drop:
                break
            K -= drop
        cust = {}
        for j in K:
            for sv in s['nodes'][j - 1]['servers']:
                i, ind = holders[(j, sv['id'])]
                cust[i] = (j, sv['id'])
        return K, cust

    def work_after(self, job, drv):
        """Genuineness on the real engine: simulate_until_deadlock, then the SAME simulation is continued with simulate_until_max_time; no
        customer of the reported deadlock may ever move.  Inside the scope of Knot.deadlock_is_permanent / Knot2.knot2_is_permanent
        (fixed servers, no pre-emption, no reneging at the nodes of the knot) the theorems say it cannot happen; outside it does:
        findings F-18a (reneging) and F-18b (Schedules), both found by the refutations of Knot2.v."""
        import gen, netbuild, framework, findings
        cfg = dict(job.get('cfg') or gen.gen(job['region'], job['gseed'], 'quick'))
        cfg.pop('replay_job', None)
        n1 = cfg.get('max_frames') or 400
        cfg['run'] = [['deadlock'], ['time', 10 ** 7]]
        cfg['max_frames'] = n1 + 250
        res = {'region': 'after/%s' % cfg.get('region'), 'gseed': cfg.get('gen_seed'), 'hash': 'after/' + framework.cfg_hash(cfg), 'exc': None, 'status': 'ok',
               'nontrivial': False, 'stats': {}, 'nframes': 0, 'verdict': ('A', [])}
        st = res['stats']
        tr = netbuild.run_cfg(cfg, max_frames=cfg['max_frames'])
        if getattr(tr, 'rejected', False) or tr.init is None:
            res['status'] = 'cfg_rejected'
            return res
        res['nframes'] = len(tr.frames)
        ends = getattr(tr, 'run_ends', None) or []
        if not ends or ends[0]['frames'] >= n1:
            st['after_no_deadlock_reported'] = 1       # the first call never returned (or only because of the frame budget)
            return res
        k0 = ends[0]['frames']
        K, cust = self.knot_of(ends[0]['final'])
        if not K:
            st['after_no_structural_knot'] = 1         # soundness of the report itself is clause 92's business (the main runs)
            return res
        st['after_deadlocks_continued'] = 1
        st['after_events_after_the_report'] = len(tr.frames) - k0
        # the hypotheses (at the report) and the conclusion (later) of Knot2.knot2_is_permanent_in_scope, evaluated by the extracted Coq
        # booleans on the real snapshots encoded as stage-2 engine states (dispatch_model 44): inside knot_scope the theorem says the knot stays
        in_scope = None
        if drv is not None:
            import engine_k2b, sx
            kcfg = {x: y for x, y in cfg.items() if x not in ('detector', 'tracker')}
            if engine_k2b.in_scope(kcfg):
                ecfg = engine_k2b.enc_cfg(kcfg, tr.init)
                cyc = [[0] * cfg['n'] for _ in range(cfg['k'])]

                def knot2(f):
                    nd = f['next_date'] if isinstance(f['next_date'], int) else f['now']
                    vv = drv.ask('m44', sx.dump([ecfg, engine_k2b.enc_state(f['snap'], kcfg, f['next'], nd, cyc), sorted(K)]))
                    o = engine_k2b.parse(vv[1]) if vv[0] == 'M' else None
                    return o if isinstance(o, list) and len(o) == 3 else None
                o0 = knot2(tr.frames[k0 - 1]) if k0 >= 1 else None
                if o0 is not None:
                    in_scope = o0[0] == 1
                    st['after_knot2_in_scope' if in_scope else 'after_knot2_out_of_scope'] = 1
                    if in_scope and (o0[1] != 1 or o0[2] != 1):
                        res['soft'] = {'clause': 901, 'frame': k0, 'cfg': cfg, 'finding': None,
                                       'detail': {'what': 'the snapshot at the reported deadlock does not satisfy the hypotheses of Knot2.knot2_is_permanent_in_scope for the knot read off it',
                                                  'K': sorted(K), 'got [knot_scope, knot2_b, noscope_b]': o0}}
                    elif in_scope:
                        for k in list(range(k0, len(tr.frames), 25))[:8]:
                            ok = knot2(tr.frames[k])
                            if ok is None or ok[1] != 1 or ok[2] != 1:
                                res['soft'] = {'clause': 901, 'frame': k + 1, 'cfg': cfg, 'finding': None,
                                               'detail': {'what': 'Knot2.knot2_b / noscope_b fail on a later real snapshot although the theorem promises them', 'K': sorted(K), 'got': ok}}
                                break
                            st['after_later_snapshots_still_a_knot_by_knot2_b'] = st.get('after_later_snapshots_still_a_knot_by_knot2_b', 0) + 1
        moved = None
        for k in range(k0, len(tr.frames)):
            s = tr.frames[k]['snap']
            for i, (j, sid) in cust.items():
                ind = s['inds'].get(i)
                if ind is None or not ind['blocked'] or ind['node'] != j or ind['server'] != sid:
                    moved = (k + 1, i, j, sid, None if ind is None else {x: ind[x] for x in ('node', 'server', 'blocked', 'dest')})
                    break
            if moved:
                break
        res['nontrivial'] = moved is None and len(tr.frames) - k0 >= 20 and len(K) >= 1
        if tr.exc is not None and moved is None:
            st['after_continuation_raised'] = 1
        if moved:
            v = ('R', moved[0], 96, [])
            res['verdict'] = v
            res['cfg'] = dict(cfg, replay_job={'custom': 'after'})
            between = [e for f in tr.frames[k0:moved[0]] for e in f['cev']]
            res['detail'] = {'deadlock_reported_after_event': k0, 'at': tr.frames[k0 - 1]['now'] if k0 >= 1 else 0, 'knot_nodes': sorted(K), 'knot_customers': {str(i): list(x) for i, x in cust.items()},
                             'moved_at_frame': moved[0], 'now': tr.frames[moved[0] - 1]['now'], 'customer': moved[1], 'was_on': [moved[2], moved[3]], 'is': moved[4],
                             'events_between': [list(e[:4]) for e in between if e[0] in ('Renege', 'ShiftChange', 'ServersOn', 'Preempt', 'Interrupt')][:12]}
            tr.after = {'k0': k0, 'K': sorted(K), 'moved': moved}
            res['finding'] = findings.match(self.id, cfg, tr, v)
            res.pop('soft', None)
            if in_scope:
                res['detail']['inside_knot_scope'] = 'the configuration is inside Knot2.knot_scope for this knot: the theorem knot2_is_permanent_in_scope says this cannot happen in the model'
        if job.get('want_sample'):
            res['sample'] = {'kind': 'continuation after a reported deadlock', 'region': cfg.get('region'), 'gen_seed': cfg.get('gen_seed'), 'deadlock_after_event': k0,
                             'knot_nodes': sorted(K), 'knot_customers': len(cust), 'events_after_the_report': len(tr.frames) - k0, 'moved': list(moved[:4]) if moved else None}
        return res

    def custom_work(self, job, drv):
        """networkx knot search (detect_deadlock) vs the Gallina pruning computation on a random digraph."""
        if job['custom'] == 'after':
            return self.work_after(job, drv)
        import random, sx, obs
        rng = random.Random('c18/%d' % job['dseed'])
        nv = rng.randint(1, 7)
        V = [vcode(1 + i // 3, 1 + i % 3) for i in range(nv)]
        ne = rng.randint(0, min(12, nv * nv))
        E = sorted(set((rng.choice(V), rng.choice(V)) for _ in range(ne)))
        det = obs.ciw.deadlock.StateDigraph()
        det.statedigraph.add_nodes_from(['v%d' % v for v in V])
        det.statedigraph.add_edges_from([('v%d' % a, 'v%d' % b) for a, b in E])
        nx = 1 if det.detect_deadlock() else 0
        G = [list(e) for e in E]
        fr = [V, G, G, nx, 0, 0]
        tree = [0, [V, [], [], 0, 0, 0], [fr], [nx, 0, [[0, 0]]]]
        v = drv.ask(self.num, sx.dump(tree))
        res = {'region': 'digraph-diff', 'gseed': job['dseed'], 'hash': 'g%d' % job['dseed'], 'nframes': 3, 'exc': None,
               'stats': {'digraphs_compared': 1, 'digraphs_with_knot': nx}, 'status': 'ok', 'nontrivial': len(E) >= 3, 'verdict': v}
        if v[0] != 'A':
            res['cfg'] = {'graph': [V, G], 'detect_deadlock': nx}
            res['finding'] = None
            res['detail'] = 'networkx knot search and the Gallina structural computation disagree on this digraph'
        if job.get('want_sample'):
            res['sample'] = {'digraph': G, 'vertices': V, 'detect_deadlock': nx}
        return res

    @staticmethod
    def cut_of(tr):
        """index of the first frame in which a BLOCKED customer is pre-empted / interrupted (findings F-02a / F-02b: outside the property's scope,
        the run is judged up to there only), or None"""
        for k, f in enumerate(tr.frames):
            for e in f['cev']:
                if (e[0] == 'Preempt' and e[5] == 1) or (e[0] == 'Interrupt' and e[3] == 1):
                    return k
        return None

    def project(self, tr, relaxed=False):
        states = {}
        f0 = frame_of(tr.init, 0, states, relaxed)      # Simulation.__init__ enters the initial state at time 0.0
        cut = self.cut_of(tr)
        frames = tr.frames if cut is None else tr.frames[:cut]
        fr = [frame_of(f['snap'], f['now'], states, relaxed) for f in frames]
        stopped = (not tr.stopped) and tr.exc is None and cut is None
        if cut is not None:
            return [1 if relaxed else 0, f0, fr, [0, frames[-1]['now'] if frames else 0, []]]
        ttd = []
        if stopped and getattr(tr, 'ttd', None) is not None:
            for k, v in tr.ttd:
                ttd.append([states.get(k, -1), v])
        tdead = tr.frames[-1]['now'] if tr.frames else 0
        return [1 if relaxed else 0, f0, fr, [1 if stopped else 0, tdead, ttd]]

    def nontrivial(self, tr):
        if tr.stopped or tr.exc is not None or not tr.frames or self.cut_of(tr) is not None:
            return False
        s = tr.frames[-1]['snap']
        nodes = set()
        multi = False
        for i, ind in s['inds'].items():
            if ind['blocked']:
                nodes.add(ind['node'])
                if len(s['nodes'][ind['node'] - 1]['servers'] or []) >= 2:
                    multi = True
        return len(nodes) >= 2 or multi

    def sample(self, tr):
        p = self.project(tr)
        return {'frames': len(p[2]), 'last_frame': p[2][-1] if p[2] else None, 'final': p[3], 'region': tr.cfg.get('region'),
                'gen_seed': tr.cfg.get('gen_seed'), 'servers': tr.cfg['servers'], 'qcap': tr.cfg['qcap']}

    def stats(self, tr):
        return {'deadlocks_reached': 1 if (not tr.stopped and tr.exc is None) else 0,
                'blockings': sum(1 for f in tr.frames for e in f['cev'] if e[0] == 'Block')}

    def explain(self, tr, v):
        if v[0] != 'R':
            return None
        k = v[1]
        f = tr.frames[k - 1] if 1 <= k <= len(tr.frames) else None
        return {'frame': k, 'label': f['label'] if f else None, 'now': f['now'] if f else None,
                'projected': frame_of(f['snap'], f['now'], {}, False) if f else None}


PROP = C18()

"""C10 sampled inputs honoured: projection of a run onto the sampling-related event list."""
import random
from framework import Prop


def enc_time(v, scale):
    """raw sample -> ticks (int, possibly negative) or a marker for 'not a number'."""
    if isinstance(v, bool) or not isinstance(v, (int, float)):
        return None
    if v != v:
        return 'nan'
    if v in (float('inf'), float('-inf')):
        return None          # the generators never produce infinite samples on purpose; treated as invalid
    x = v * scale
    return int(x) if x == int(x) else None


def enc_batch(v):
    if isinstance(v, bool) or not isinstance(v, int):
        return None
    return v


def events(tr):
    from obs import SCALE
    cfg = tr.cfg
    K = cfg['k']
    ps = cfg.get('ps') or [False] * cfg['n']
    out = []
    stats = {'arr_draws': 0, 'arrivals': 0, 'batches_not_1': 0, 'service_draws': 0, 'service_records_checked': 0,
             'pre_start_draws': 0, 'invalid_draws': 0}

    def do(cev, now, arrival_label):
        cur_s = None
        for e in cev:
            k = e[0]
            if k == 'Draw':
                kind, node, cls, idx, t, ind, v = e[1:8]
                if kind == 'arr':
                    val = enc_time(v, SCALE)
                    out.append([1, node * K + cls, val])
                    stats['arr_draws'] += 1
                    if not (isinstance(val, int) and val >= 0):
                        stats['invalid_draws'] += 1
                elif kind == 'batch':
                    val = enc_batch(v)
                    out.append([3, node * K + cls, val])
                    if val != 1:
                        stats['batches_not_1'] += 1
                    if not (isinstance(val, int) and val >= 0):
                        stats['invalid_draws'] += 1
                elif kind == 'svc':
                    if ps[node - 1]:
                        continue
                    last = out[-1] if out else None
                    if not (last and last[0] == 6 and last[1] == ind and last[4] != 1):
                        stats['pre_start_draws'] += 1      # restart of an interrupted customer draws before the start date is written (C11's business)
                        continue
                    val = enc_time(v, SCALE)
                    tt = enc_time(t, SCALE) if t is not None else -1
                    out.append([7, ind, node, tt if isinstance(tt, int) else -1, val, now])
                    stats['service_draws'] += 1
                    if not (isinstance(val, int) and val >= 0):
                        stats['invalid_draws'] += 1
            elif k == 'ArrEvent':
                cur_s = e[1] * K + e[2]
                out.append([2, cur_s, e[3]])
                stats['arrivals'] += 1
            elif k == 'Batch':
                last = out[-1] if out else None
                if not (last and last[0] == 3):
                    out.append([3, e[1] * K + e[2], enc_batch(e[3])])      # unscripted (default Deterministic(1)) batch distribution
            elif k == 'Spawn':
                out.append([4, e[1] * K + e[3]])
            elif k == 'Start':
                node, ind, st = e[1], e[2], e[3]
                if ps[node - 1]:
                    continue
                stime, sites = e[7], e[6]
                if stime is None:
                    kind = 0
                elif isinstance(stime, tuple) and stime[1] == 'resample' and not (sites and sites[-1] == 'unblock'):
                    kind = 2
                else:
                    kind = 1
                out.append([6, ind, node, st, kind])
            elif k in ('Preempt', 'Interrupt'):
                out.append([8, e[2]])
            elif k == 'Record':
                r = e[3]
                if r['type'] == 0 and not ps[e[1] - 1] and all(isinstance(r[f], int) for f in ('service_start_date', 'service_time', 'service_end_date')):
                    out.append([9, e[2], e[1], r['service_start_date'], r['service_time'], r['service_end_date']])
                    stats['service_records_checked'] += 1
        if cur_s is not None:
            out.append([5, cur_s])

    do(tr.init_cev, 0, False)
    for f in tr.frames:
        out.append([10, f['now']])
        do(f['cev'], f['now'], f['label'][0] == 'arrival')
    if tr.partial is not None:
        out.append([10, tr.partial['now']])
        n0 = len(out)
        do(tr.partial['cev'], tr.partial['now'], False)
        if out and out[-1][0] == 5:
            out.pop()           # the arrival event did not complete
    return out, stats


POISON_TIME = [-1, -4, 'nan', 'str', 'none']
POISON_BATCH = [-1, 'half', 'str', 'none']


class C10(Prop):
    id = 'C10'
    k2_mask = {('arr', 'dates'), ('arr', 'next_date'), ('ind', 'stime'), ('ind', 'sst'), ('ind', 'send'), ('rec', 'stime'), ('rec', 'sst'), ('rec', 'send'), ('arr', 'created')}      # the slice of the engine state / records this property reads (DESIGN 7, table of slices)
    k2_frames = 40
    k2_invs2 = {'svc2'}         # the stage-2 T2 invariants (Inv/AllRun2.invs2_b) this property answers for on real snapshots
    k2_invs = {'svc'}          # the T2 invariants (Inv/AllRun.invs_b) this property answers for on real snapshots
    num = 10
    regions = {'quick': [('core', 150), ('block', 60), ('routers', 40), ('renege', 50), ('preempt', 60), ('sched', 50),
                         ('schedpre', 40), ('slotted', 40), ('dyn', 30), ('ps', 20), ('all', 60), ('batch_mix', 60), ('core_mix', 20)]}
    rule = ('one case = one observed run; the event list has every arrival/batch/service sample returned by the distribution objects, '
            'every arrival event, customer creation, service start, interruption and service record; non-trivial = >= 2 arrival streams, '
            'a batch different from 1 and >= 10 checked service records, or a malformed-sample run in which the invalid sample was drawn; '
            'distinct = distinct configuration hashes')
    clause_text = {100: 'the run continued after an invalid sample', 101: 'not exactly one inter-arrival sample per arrival of the stream',
                   102: 'arrival not at the partial sum of the inter-arrival samples', 103: 'batch sample not at the head of an arrival event',
                   104: 'customer created outside a sampled batch', 105: 'more customers created than the sampled batch size',
                   106: 'inter-arrival sample drawn at the wrong point of the arrival event', 107: 'fewer customers created than the sampled batch size',
                   108: 'a service start did not draw its service time (or events out of order)', 109: 'service sample not for the customer that just started',
                   110: 'service sample at another node than the start', 111: 'service sample not taken at the start instant / wrong time passed',
                   112: 'a service did not last exactly the time sampled for that customer at its start',
                   114: 'a sample that is not a non-negative number (or batch not a non-negative integer) did not raise an error',
                   115: 'an arrival is overdue: the clock passed the partial sum of a stream without the arrival happening'}

    def jobs(self, tier, seed):
        js = super().jobs(tier, seed)
        m = 120 if tier == 'quick' else 2500
        for i in range(m):
            js.append({'region': 'core' if i % 3 else 'renege', 'gseed': seed * 100003 + 500000 + i, 'size': 'quick', 'poison': True})
        # the malformed-sample stream in EXACT mode (the exact node classes replace the traced ones, so these runs are not traced: the oracle's
        # own draw log and whether the run raised are the whole observation)
        for i in range(max(30, m // 3)):
            js.append({'custom': 'exact_poison', 'region': 'core' if i % 3 else 'renege', 'gseed': seed * 100003 + 700000 + i})
        return js

    def custom_work(self, job, drv):
        import gen, netbuild, obs, sx, framework
        cfg = gen.gen(job['region'], job['gseed'], 'quick')
        for key in ('ps', 'ps_thr', 'tracker', 'detector'):
            cfg.pop(key, None)
        cfg = self.adjust(cfg, dict(job, poison=True))
        cfg.pop('combine', None)
        cfg['exact'] = 26
        res = {'region': 'malformed_exact', 'gseed': job['gseed'], 'hash': 'x/' + framework.cfg_hash(cfg), 'exc': None, 'status': 'ok', 'nontrivial': False,
               'stats': {}, 'nframes': 0}
        obs.install_shim()
        obs.OBS.reset()
        obs.OBS.on = True
        obs.OBS.cev = []
        raised = None
        try:
            obs.ciw.seed(cfg.get('seed', 0))
            net = netbuild.make_network(cfg)
        except Exception:
            res['status'] = 'cfg_rejected'
            return res
        obs.OBS.classes = list(net.customer_class_names)
        count = [0]
        try:
            class Cnt(obs.ciw.Simulation):
                def event_and_return_nextnode(self, nd):
                    count[0] += 1
                    if count[0] > 400:
                        raise obs.StopRun()
                    return super().event_and_return_nextnode(nd)
            Q = Cnt(net, exact=26)
            netbuild.do_run(Q, cfg['run'])
        except obs.StopRun:
            pass
        except Exception as e:
            raised = obs.repo_site(e)
        K = cfg['k']
        ev = []
        bad = 0
        for e in obs.OBS.cev:
            if e[0] != 'Draw':
                continue
            kind, node, cls, idx, t, ind, v = e[1:8]
            if kind == 'arr':
                val = enc_time(v, obs.SCALE)
                ev.append([1, node * K + cls, val])
            else:
                continue        # batch sizes and service times take the same path in both modes; the exact node classes override inter_arrival only
            if not (isinstance(val, int) and val >= 0):
                bad += 1
        res['nframes'] = count[0]
        res['exc'] = raised
        res['stats'] = {'exact_mode_malformed_runs': 1, 'exact_mode_invalid_arrival_draws': bad, 'arr_draws': sum(1 for x in ev if x[0] == 1)}
        # only the draws up to and including the first invalid one matter: after it the run must have raised
        cut = next((i for i, x in enumerate(ev) if not (isinstance(x[2], int) and x[2] >= 0)), None)
        tree = [[x for x in (ev if cut is None else ev[:cut + 1]) if x[0] in (1, 3)], 1 if raised is not None else 0]
        # the acceptor's stream discipline (event kinds 2, 4, 5) is not observable here: hand it the invalid draw alone
        tree = [[tree[0][-1]] if cut is not None else [], tree[1] if cut is not None else 0]
        v = drv.ask(self.num, sx.dump(tree))
        res['verdict'] = v
        res['nontrivial'] = cut is not None and v[0] == 'A'
        if v[0] != 'A':
            res['cfg'] = dict(cfg, replay_job={'custom': 'exact_poison', 'region': job['region'], 'gseed': job['gseed']})
            res['finding'] = None
            res['detail'] = {'what': 'exact mode: an invalid inter-arrival sample was drawn and the run did not raise', 'draw': tree[0], 'events_executed': count[0]}
        if job.get('want_sample'):
            res['sample'] = {'kind': 'exact-mode malformed sample', 'invalid_draw': tree[0], 'raised': raised}
        return res

    def adjust(self, cfg, job):
        # a share of the runs hands its times to the engine through ciw's arithmetic on distributions (CombinedDistribution):
        # the value the engine receives is the combination, and THAT is what must be validated
        if random.Random('combine/%s/%s' % (cfg.get('region'), job.get('gseed'))).random() < (0.5 if job.get('poison') else 0.15):
            cfg['combine'] = True
        if not job.get('poison'):
            return cfg
        rng = random.Random('poison/%d' % job['gseed'])
        what = rng.choice(['arr', 'svc', 'svc', 'batch'])
        n, k = cfg['n'], cfg['k']
        if what == 'batch':
            if cfg.get('batch') is None:
                cfg['batch'] = [[([1] if cfg['arr'][c][j] is not None else None) for j in range(n)] for c in range(k)]
            cands = [(c, j) for c in range(k) for j in range(n) if cfg['batch'][c][j] is not None]
            c, j = rng.choice(cands)
            lst = cfg['batch'][c][j]
            lst.insert(rng.randrange(len(lst) + 1), rng.choice(POISON_BATCH))
        else:
            cands = [(c, j) for c in range(k) for j in range(n) if cfg[what][c][j] is not None]
            c, j = rng.choice(cands)
            lst = cfg[what][c][j]
            lst.insert(rng.randrange(1 if what == 'arr' else 0, len(lst) + 1), rng.choice(POISON_TIME))
        cfg['region'] = 'malformed'
        return cfg

    def project(self, tr, relaxed=False):
        ev, _ = events(tr)
        return [ev, 1 if tr.exc is not None else 0]

    def nontrivial(self, tr):
        ev, st = events(tr)
        if tr.cfg.get('region') == 'malformed':
            return st['invalid_draws'] >= 1
        streams = set(e[1] for e in ev if e[0] == 2)
        return len(streams) >= 2 and st['batches_not_1'] >= 1 and st['service_records_checked'] >= 10

    def sample(self, tr):
        ev, st = events(tr)
        return {'n_events': len(ev), 'events_head': ev[:14], 'stats': st, 'region': tr.cfg.get('region'), 'gen_seed': tr.cfg.get('gen_seed'),
                'exception': tr.exc}

    def stats(self, tr):
        return events(tr)[1]

    def explain(self, tr, v):
        if v[0] != 'R':
            return None
        ev, st = events(tr)
        k = v[1]
        return {'event_index': k, 'events_around': ev[max(0, k - 6):k + 2], 'exception': tr.exc, 'region': tr.cfg.get('region')}


PROP = C10()

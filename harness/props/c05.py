"""C05 work conservation: projection."""
from framework import Prop
from props.c04 import tracked


def node_part(s, j):
    n = s['nodes'][j - 1]
    w = 0
    for q in n['queues']:
        for i in q:
            ind = s['inds'][i]
            if ind['server'] is None or ind['interrupted']:
                w += 1
    return [j, w, [[x['busy'], x['offduty']] for x in (n['servers'] or [])]]


def events(cev, nodes):
    out = []
    for e in cev:
        k = e[0]
        if k in ('Release', 'Preempt', 'Interrupt') and e[1] in nodes:
            out.append([1, e[1]])
        elif k == 'ServersOn' and e[2] > 0 and e[1] in nodes:
            out.append([1, e[1]])
        elif k == 'Start' and e[1] in nodes:
            arr = None
            for q in e[4]:
                for (i, w, a, *_) in q:
                    if i == e[2]:
                        arr = a
            out.append([2, e[1], (e[3] - arr) if isinstance(arr, int) else 0])
    return out


class C05(Prop):
    id = 'C05'
    k2_mask = {('node', 'queues'), ('server', 'busy'), ('server', 'cust'), ('ind', 'server'), ('ind', 'sst'), ('node', 'insvc')}      # the slice of the engine state / records this property reads (DESIGN 7, table of slices)
    k2_frames = 40
    k2_invs2 = {'srv2', 'idle2'}         # the stage-2 T2 invariants (Inv/AllRun2.invs2_b) this property answers for on real snapshots
    k2_invs = {'srv', 'idle'}          # the T2 invariants (Inv/AllRun.invs_b) this property answers for on real snapshots
    num = 5
    regions = {'quick': [('core', 90), ('block', 90), ('routers', 40), ('renege', 60), ('preempt', 60), ('sched', 70),
                         ('sched_block', 50), ('schedpre', 60), ('dyn', 50), ('all', 40), ('renege_preempt', 30), ('spf', 30), ('spf_sched', 70), ('spf_block', 20), ('schedpre_block', 100), ('schedpre_tandem', 80)]}
    rule = ('one case = one observed run; non-trivial = at some instant >= 2 customers waited at a node and a service was '
            '(re)started through a path other than a plain arrival (release, unblocking, shift change, interruption restart, '
            'pre-emption); distinct = distinct configuration hashes')
    clause_text = {40: 'a customer waits while an on-duty server is idle',
                   41: 'a waiting customer started service at an instant at which nothing was freed at its node'}

    def project(self, tr):
        nodes = tracked(tr.cfg)
        out = [[[node_part(tr.init, j) for j in nodes], []]]
        for f in tr.frames:
            out.append([[node_part(f['snap'], j) for j in nodes], events(f['cev'], nodes)])
        return out

    def nontrivial(self, tr):
        nodes = tracked(tr.cfg)
        two = any(node_part(f['snap'], j)[1] >= 2 for f in tr.frames for j in nodes)
        path = any(e[0] == 'Start' and e[6] and e[6][-1] != 'bsip_accept' for f in tr.frames for e in f['cev'])
        return two and path

    def sample(self, tr):
        p = self.project(tr)
        fr = [x for x in p if any(e[0] == 2 and e[2] > 0 for e in x[1])]
        return {'frames': len(p), 'a_frame_with_delayed_start': fr[0] if fr else None, 'region': tr.cfg.get('region'),
                'gen_seed': tr.cfg.get('gen_seed')}

    def stats(self, tr):
        return {'starts': sum(1 for f in tr.frames for e in f['cev'] if e[0] == 'Start')}

    def explain(self, tr, v):
        if v[0] != 'R' or v[1] < 1 or v[1] > len(tr.frames):
            return None
        f = tr.frames[v[1] - 1]
        return {'frame': v[1], 'label': f['label'], 'cev': [e[:4] for e in f['cev']][:30], 'info': v[3]}


PROP = C05()

"""C12 schedules and slots: projection of runs + differential test of the Schedule/Slotted
objects against the Gallina model (Sub/Sched.v)."""
import random
from framework import Prop
import sx


def ncfgs(cfg):
    out = []
    for j, s in enumerate(cfg['servers']):
        if isinstance(s, dict):
            if s['kind'] == 'sched':
                out.append([j + 1, 0, s['ends'], s['c'], s.get('offset', 0), 0, 1 if s.get('pre') else 0])
            else:
                out.append([j + 1, 1, s['slots'], s['sizes'], s.get('offset', 0), 1 if s.get('cap') else 0,
                            1 if s.get('pre') else 0])
    return out


def events(tr):
    cfg = tr.cfg
    kinds = {j + 1: s['kind'] for j, s in enumerate(cfg['servers']) if isinstance(s, dict)}
    out = []
    meta = []

    def snaps(s, fi):
        for j in kinds:
            if kinds[j] == 'sched':
                n = s['nodes'][j - 1]
                od = sum(1 for x in (n['servers'] or []) if not x['offduty'])
                out.append([5, j, s['now'], od])
                meta.append(fi)
    snaps(tr.init, 0)
    for fi, f in enumerate(tr.frames):
        lab = f['label']
        cev = f['cev']
        slot_node = lab[1] if lab[0] == 'slotted_service' else None
        shift_node = lab[1] if lab[0] == 'shift_change' else None
        nstarts = {}
        if lab[0] == 'end_service' and lab[1] in kinds and isinstance(lab[4], int):
            out.append([6, lab[1], lab[4]])
            meta.append(fi + 1)
        for e in cev:
            k = e[0]
            if k == 'Start' and e[1] in kinds:
                node = e[1]
                n_prev = (tr.frames[fi - 1]['snap'] if fi > 0 else tr.init)['nodes'][node - 1]
                restart = 1 if (e[5] or 'restart_interrupted' in e[6]) else 0
                # interrupted customers still waiting at that moment: from the RestartInterrupted / snapshot bookkeeping
                ni = e[8] if len(e) > 8 else 0
                con = e[9] if len(e) > 9 else 1
                out.append([3, node, e[3], con, restart, ni, 1 if slot_node == node else 0])
                meta.append(fi + 1)
                nstarts[node] = nstarts.get(node, 0) + 1
            elif k == 'Record' and e[3]['type'] == 1 and e[1] in kinds and (shift_node == e[1] or slot_node == e[1]):
                out.append([4, e[1], e[3]['exit_date'], lab[4]])
                meta.append(fi + 1)
        for e in cev:
            if e[0] == 'ShiftDone':
                out.append([1, e[1], lab[4], e[2], sum(1 for o in e[4] if not o)])
                meta.append(fi + 1)
            if e[0] == 'SlotDone':
                sl = [x for x in cev if x[0] == 'Slot' and x[1] == e[1]][0]
                out.append([2, e[1], lab[4], sl[2], nstarts.get(e[1], 0), sl[3], e[2]])
                meta.append(fi + 1)
        snaps(f['snap'], fi + 1)
    return out, meta


class C12(Prop):
    id = 'C12'
    num = 12
    # K2: the slice of the (stage-2) engine model's state / records this property reads
    k2_mask = {('node', '*'), ('server', '*'), ('rec', '*'), ('ind', 'interrupted'), ('ind', 'sst'), ('ind', 'server')}
    k2_frames = 40
    k2_invs2 = {'sched', 'next', 'slot'}         # the stage-2 T2 invariants (Inv/AllRun2.invs2_b) this property answers for on real snapshots
    regions = {'quick': [('sched', 110), ('sched_block', 60), ('schedpre', 110), ('slotted', 80), ('slotted_pre', 50), ('renege_schedpre', 30), ('all', 60),
                         ('renege', 20), ('spf_sched', 40), ('schedpre_block', 100), ('schedpre_tandem', 80)]}
    rule = ('one case = one observed run with a Schedule or Slotted node, or one differential comparison of a Schedule/Slotted '
            'object with the Gallina generator model over >= 12 shifts; non-trivial run = >= 2 full cycles of the timetable, '
            'a zero-server shift or a slot, and >= 1 overtime or interruption; distinct = distinct configuration hashes')
    clause_text = {60: 'event at a node without a schedule', 61: 'shift change not at the timetable date', 62: 'wrong number of servers after the shift change',
                   63: 'servers on duty after the shift change differ from the timetable', 64: 'slot not at the timetable date',
                   65: 'wrong slot size', 66: 'more service starts than the slot size', 67: 'capacitated slot: more starts than free capacity',
                   68: 'capacitated pre-emptive slot: more than slot size in service afterwards', 69: 'service start while zero servers are scheduled',
                   70: 'a fresh customer started while an interrupted one was waiting', 71: 'slotted node: service start outside a slot',
                   72: 'interrupted record not dated at the shift end', 73: 'servers on duty between shift changes differ from the timetable',
                   74: 'a shift change is overdue', 75: 'the node executed an end of service at (or after) the date of its own due shift change / slot (at a tie the shift change / slot goes first)', 80: 'Schedule/Slotted object disagrees with the Gallina model'}

    def jobs(self, tier, seed):
        js = super().jobs(tier, seed)
        m = 120 if tier == 'quick' else 3000
        for i in range(m):
            js.append({'custom': 'diff', 'dseed': seed * 7919 + i})
        return js

    def custom_work(self, job, drv):
        import obs
        ciw = obs.ciw
        rng = random.Random('c12/%d' % job['dseed'])
        n = rng.randint(1, 6)
        ends = sorted(rng.sample(range(1, 60), n))
        vals = [rng.randint(0, 5) for _ in range(n)]
        off = rng.choice([0, 0, 1, 3, 10])
        m = rng.randint(12, 40)
        S = obs.SCALE
        res = {'region': 'sched-object-diff', 'gseed': job['dseed'], 'hash': 'd%d' % job['dseed'], 'nframes': m, 'exc': None,
               'stats': {'object_steps_compared': m}, 'status': 'ok', 'nontrivial': m >= 2 * n}
        if rng.random() < 0.5:
            sch = ciw.Schedule(numbers_of_servers=list(vals), shift_end_dates=[e / S for e in ends], offset=off / S)
            sch.initialise()
            impl = [[sch.c, obs.tk(sch.next_shift_change_date), sch.next_c]]
            for _ in range(m):
                sch.get_next_shift()
                impl.append([sch.c, obs.tk(sch.next_shift_change_date), sch.next_c])
            v = drv.ask('m12', sx.dump([ends, vals, off, m]))
        else:
            sl = ciw.Slotted(slots=[e / S for e in ends], slot_sizes=list(vals), offset=off / S)
            sl.initialise()
            impl = [[obs.tk(sl.next_slot_date), sl.slot_size]]
            for _ in range(m):
                sl.get_next_slot()
                impl.append([obs.tk(sl.next_slot_date), sl.slot_size])
            v = drv.ask('m13', sx.dump([ends, vals, off, m]))
        model = v[1] if v[0] == 'M' else None
        if model == sx.dump(impl):
            res['verdict'] = ('A', [m])
        else:
            res['verdict'] = ('R', 0, 80, [])
            res['cfg'] = {'diff': [ends, vals, off, m], 'impl': sx.dump(impl), 'model': model}
            res['finding'] = None
            res['detail'] = None
        if job.get('want_sample'):
            res['sample'] = {'object_diff': [ends, vals, off, m], 'impl_first_states': impl[:4]}
        return res

    def project(self, tr):
        return [ncfgs(tr.cfg), events(tr)[0]]

    def nontrivial(self, tr):
        evs = events(tr)[0]
        cfgn = ncfgs(tr.cfg)
        if not cfgn:
            return False
        ticks = {}
        for e in evs:
            if e[0] in (1, 2):
                ticks[e[1]] = ticks.get(e[1], 0) + 1
        cycles = any(ticks.get(c[0], 0) >= 2 * len(c[2]) for c in cfgn)
        zero = any((e[0] == 1 and e[3] == 0) or e[0] == 2 for e in evs)
        ovt = any(e[0] == 4 for e in evs) or any(n['overtime'] for f in tr.frames[-1:] for n in f['snap']['nodes'])
        return cycles and zero and ovt

    def sample(self, tr):
        p = self.project(tr)
        return {'nodes': p[0], 'events_head': [e for e in p[1] if e[0] != 5][:12], 'n_events': len(p[1]),
                'region': tr.cfg.get('region'), 'gen_seed': tr.cfg.get('gen_seed')}

    def stats(self, tr):
        evs = events(tr)[0]
        return {'shift_changes': sum(1 for e in evs if e[0] == 1), 'slots': sum(1 for e in evs if e[0] == 2),
                'starts_at_scheduled_nodes': sum(1 for e in evs if e[0] == 3)}

    def explain(self, tr, v):
        if v[0] != 'R':
            return None
        evs, meta = events(tr)
        k = v[1]
        fi = meta[k] if k < len(meta) else None
        return {'event_index': k, 'event': evs[k] if k < len(evs) else None, 'frame': fi,
                'label': tr.frames[fi - 1]['label'] if fi else None, 'nodes': ncfgs(tr.cfg)}


PROP = C12()

"""C14 normal termination and exact stop: projection of the simulate_until_* calls of a run."""
import random
from framework import Prop
from props.c02 import sched_dates

METHODS = ['Complete', 'Finish', 'Arrive', 'Accept']


def true_counts(cev, c):
    """update the four true counters (completed, finished, arrived, accepted) with the C-events of one frame"""
    closed = set()
    for e in cev:
        k = e[0]
        if k == 'Spawn':
            c[2] += 1
        elif k == 'Send':
            c[3] += 1
        elif k == 'Record':
            r = e[3]
            if r['type'] in (0, 1) and r['destination'] == -1:
                closed.add(e[2])
        elif k == 'ExitEnter':
            c[1] += 1
            if e[1] in closed:
                c[0] += 1
    return c


def queues_of(s):
    return [[list(q) for q in n['queues']] for n in s['nodes']]


def calls(tr):
    cfg = tr.cfg
    runs = cfg['run'] if isinstance(cfg['run'][0], list) else [cfg['run']]
    ends = getattr(tr, 'run_ends', None) or []
    out = []
    c = [0, 0, 0, 0]
    pos = 0
    prev_snap = tr.init
    stats = {'calls': 0, 'time_calls': 0, 'count_calls': 0, 'events': 0, 'zero_event_calls': 0}
    for ci, r in enumerate(runs):
        completed_call = ci < len(ends)
        stop = ends[ci]['frames'] if completed_call else len(tr.frames)
        if not completed_call and tr.exc is None:
            break                               # cut by the frame limit: this call is not judged
        m = METHODS.index(r[2]) if r[0] == 'cust' else 0
        fr = []
        c0 = c[m]
        for f in tr.frames[pos:stop]:
            b = c[m]
            true_counts(f['cev'], c)
            fr.append([f['now'], b, c[m]])
            prev_snap = f['snap']
        if not completed_call and tr.partial is not None:
            true_counts(tr.partial['cev'], c)
        pos = stop
        if completed_call:
            fin = ends[ci]['final']
            ds = [d for (_, d) in sched_dates(fin, cfg) if isinstance(d, int)]
            pend = min(ds) if ds else 'inf'
            inplace = queues_of(fin) == queues_of(prev_snap)
            out.append([0 if r[0] == 'time' else 1, r[1], c0, fr, 1, pend, 1 if inplace else 0])
        else:
            out.append([0 if r[0] == 'time' else 1, r[1], c0, fr, 0, 'inf', 1])
        stats['calls'] += 1
        stats['time_calls' if r[0] == 'time' else 'count_calls'] += 1
        stats['events'] += len(fr)
        if not fr:
            stats['zero_event_calls'] += 1
        if not completed_call:
            break
    return out, stats


def nfeatures(cfg):
    n = 0
    for key in ('qcap', 'batch', 'prio', 'preempt', 'disc', 'ccm', 'cct', 'ren', 'baulk', 'ps'):
        if cfg.get(key) is not None:
            n += 1
    if cfg.get('syscap') not in (None, 'inf'):
        n += 1
    if any(isinstance(s, dict) for s in cfg['servers']):
        n += 1
    if any(r['kind'] != 'tm' for r in cfg['routing']):
        n += 1
    return n


class C14(Prop):
    id = 'C14'
    k2_mask = {('top', 'now'), ('top', 'next_active'), ('arr', 'created'), ('arr', 'accepted'), ('top', 'exit_n'), ('top', 'exit_completed')}      # the slice of the engine state / records this property reads (DESIGN 7, table of slices)
    k2_frames = 40
    k2_invs2 = {'clk2', 'cnt2'}         # the stage-2 T2 invariants (Inv/AllRun2.invs2_b) this property answers for on real snapshots
    k2_invs = {'hzn', 'clk', 'cnt'}          # the T2 invariants (Inv/AllRun.invs_b) this property answers for on real snapshots
    num = 14
    exc_is_violation = True
    min_frames = 0
    regions = {'quick': [('all', 200), ('core', 60), ('block', 40), ('routers', 40), ('renege', 40), ('preempt', 40), ('sched', 40), ('schedpre', 40),
                         ('slotted', 30), ('slotted_pre', 20), ('dyn', 40), ('ps', 30), ('renege_preempt', 30), ('prio_reroute', 20), ('sched_reroute', 20),
                         ('preempt_block', 20), ('sched_block', 20), ('schedpre_block', 20), ('renege_dyn', 30), ('renege_schedpre', 20), ('jsq_preempt', 20), ('sched_dyn', 60), ('core_mix', 40), ('block_mix', 20), ('batch_mix', 30), ('dyn_reroute', 30)]}
    rule = ('one case = one observed run consisting of one to three simulate_until_max_time / simulate_until_max_customers calls (all four '
            'methods, horizons including 0) on a generated network from every feature region; non-trivial = the network combines >= 3 '
            'optional features and >= 5 events were executed; distinct = distinct configuration hashes')
    clause_text = {180: 'the call raised an internal error', 181: 'an event scheduled at or after T was executed', 182: 'an event scheduled before T was left unexecuted',
                   183: 'the loop kept running although the count had reached n', 184: 'the loop stopped before the count reached n',
                   185: 'the return disturbed the customers waiting / in service', 186: 'count bookkeeping of the observer inconsistent'}

    def frame_index(self, tr, k):
        # the acceptor reports the index of a CALL; the generic finding triggers want the index of the last frame of that call
        ends = getattr(tr, 'run_ends', None) or []
        if isinstance(k, int) and 0 <= k < len(ends):
            return ends[k]['frames']
        return len(tr.frames) + 1

    def adjust(self, cfg, job):
        rng = random.Random('c14/%s/%s' % (cfg.get('region'), cfg.get('gen_seed')))
        def one():
            if rng.random() < 0.5:
                return ['time', rng.choice([0, 1, 7, 20, 40, 80, 120])]
            return ['cust', rng.choice([0, 1, 2, 5, 9, 14, 25]), rng.choice(METHODS)]
        r1 = one()
        if rng.random() < 0.35:
            r2 = one()
            if r1[0] == 'time' and r2[0] == 'time' and r2[1] < r1[1]:
                r2[1] = r1[1] + rng.choice([0, 3, 10])
            cfg['run'] = [r1, r2]
            if rng.random() < 0.45:
                # a third call (e.g. max_time, max_customers, max_time): whatever one call leaves behind must not mislead the next
                r3 = one()
                tmax = max([r[1] for r in (r1, r2) if r[0] == 'time'] or [0])
                if r3[0] == 'time' and r3[1] < tmax:
                    r3[1] = tmax + rng.choice([0, 3, 10, 30])
                cfg['run'] = [r1, r2, r3]
                if rng.random() < 0.5:
                    # the mixed pattern: a horizon, then a count that makes the engine run on, then a later horizon
                    t1 = rng.choice([7, 20, 40])
                    cfg['run'] = [['time', t1], ['cust', rng.choice([2, 5, 9, 14]), rng.choice(METHODS)], ['time', t1 + rng.choice([10, 30, 60, 100])]]
        else:
            cfg['run'] = [r1]
        cfg['max_frames'] = 1500
        cfg.pop('detector', None)
        return cfg

    def project(self, tr, relaxed=False):
        return calls(tr)[0]

    def nontrivial(self, tr):
        cl, st = calls(tr)
        return nfeatures(tr.cfg) >= 3 and st['events'] >= 5

    def sample(self, tr):
        cl, st = calls(tr)
        short = [c[:3] + [c[3][:4] + (['...'] if len(c[3]) > 4 else [])] + c[4:] for c in cl]
        return {'calls': short, 'run': tr.cfg['run'], 'features': nfeatures(tr.cfg), 'region': tr.cfg.get('region'), 'gen_seed': tr.cfg.get('gen_seed'),
                'exception': tr.exc}

    def stats(self, tr):
        st = calls(tr)[1]
        st['runs_with_%d_features' % min(nfeatures(tr.cfg), 6)] = 1
        return st

    def explain(self, tr, v):
        cl, st = calls(tr)
        return {'run': tr.cfg['run'], 'exception': tr.exc, 'calls': [c[:3] + [len(c[3])] + c[4:] for c in cl],
                'last_label': tr.partial['label'] if tr.partial else (tr.frames[-1]['label'] if tr.frames else None)}


PROP = C14()

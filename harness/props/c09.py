"""C09 routing and class-change fidelity: one event per routing / class-change decision, carrying the routing
specification read from the CONFIGURATION, the uniform draw consumed and the true queue sizes at that instant."""
from framework import Prop

TWO53 = 2 ** 53


def U_of(us):
    if len(us) == 0:
        return -1
    if len(us) == 1:
        return int(us[0] * TWO53)
    return -2         # more than one draw for one decision: the model will not match


def ex(d):
    """node id as the acceptor wants it: exit (-1) -> 0"""
    return d if d > 0 else 0


def events(tr):
    cfg = tr.cfg
    n, k = cfg['n'], cfg['k']
    out, meta = [], []
    stats = {'routes': 0, 'class_changes': 0, 'jsq_lb': 0, 'jsq_unequal': 0, 'weighted': 0, 'cycle': 0, 'pb': 0, 'fpb': 0, 'determined': 0}
    kinds = set()
    pmap = cfg.get('prio') or [0] * k

    def shortest(kind, dests, tie, U, dest, ctx):
        if kind == 'jsq':
            sizes = [ctx[d - 1][2] - ctx[d - 1][3] for d in dests]
            counters = [ctx[d - 1][0] - ctx[d - 1][1] for d in dests]
        else:
            sizes = [ctx[d - 1][2] for d in dests]
            counters = [ctx[d - 1][0] for d in dests]
        stats['jsq_lb'] += 1
        if len(set(sizes)) > 1:
            stats['jsq_unequal'] += 1
        return [3, list(dests), sizes, 1 if tie == 'order' else 0, U, dest, counters]

    for fi, f in enumerate(tr.frames + ([tr.partial] if tr.partial else [])):
        us = []
        for e in f['cev']:
            kd = e[0]
            if kd == 'Unif':
                us.append(e[1])
                continue
            if kd == 'Route':
                node, ind, cls, dest, ctx, rb, ra, rk = e[1:9]
                dest = ex(dest)
                spec = cfg['routing'][cls]
                U = U_of(us)
                stats['routes'] += 1
                kinds.add(spec['kind'])
                if rk == 2:
                    jr = spec['routers'][node - 1] if spec['kind'] == 'nr' else None
                    if jr and jr['kind'] == 'jockey_alt':
                        continue            # the harness's stateful jockeying rule: the destination is not a function of the configuration
                    exp = ex(jr['jock']) if jr and jr['kind'] == 'jockey' else 0
                    out.append([2, exp, dest]); meta.append(fi + 1); stats['determined'] += 1
                elif spec['kind'] == 'tm':
                    row = spec['rows'][node - 1]
                    out.append([1, list(range(1, n + 1)) + [0], list(row) + [8 - sum(row)], U, dest]); meta.append(fi + 1)
                    stats['weighted'] += 1
                elif spec['kind'] == 'nr':
                    r = spec['routers'][node - 1]
                    kinds.add(r['kind'])
                    if r['kind'] in ('direct', 'jockey', 'jockey_alt'):
                        out.append([2, ex(r['to']), dest]); stats['determined'] += 1
                    elif r['kind'] == 'leave':
                        out.append([2, 0, dest]); stats['determined'] += 1
                    elif r['kind'] == 'prob':
                        out.append([1, list(r['dests']) + [0], list(r['probs']) + [8 - sum(r['probs'])], U, dest]); stats['weighted'] += 1
                    elif r['kind'] in ('jsq', 'lb'):
                        out.append(shortest(r['kind'], r['dests'], r.get('tie', 'random'), U, dest, ctx))
                    elif r['kind'] == 'cycle':
                        out.append([4, cls * 1000 + node, [ex(x) for x in r['cycle']], dest]); stats['cycle'] += 1
                    meta.append(fi + 1)
                elif spec['kind'] == 'pb':
                    out.append([5, list(rb or []), list(ra or []), dest]); meta.append(fi + 1); stats['pb'] += 1
                elif spec['kind'] == 'fpb':
                    before = [list(x) for x in (rb or [])]
                    after = [list(x) for x in (ra or [])]
                    out.append([6, 0 if spec['rule'] == 'any' else 1, before, after, dest]); meta.append(fi + 1); stats['fpb'] += 1
                    if before:
                        if spec['choice'] == 'random':
                            out.append([7, before[0], U, dest])
                        else:
                            out.append(shortest(spec['choice'], before[0], 'random', U, dest, ctx))
                        meta.append(fi + 1)
            elif kd == 'ClassChange':
                node, ind, b, a, has, prio = e[1:7]
                stats['class_changes'] += 1
                if has and cfg.get('ccm') is not None and cfg['ccm'][node - 1] is not None:
                    out.append([1, list(range(k)), list(cfg['ccm'][node - 1][b]), U_of(us), a])
                else:
                    out.append([8, b, a])
                meta.append(fi + 1)
            us = []
        if 'snap' in f:
            out.append([9, list(pmap), [[i['cls'], i['prio']] for i in f['snap']['inds'].values()]]); meta.append(fi + 1)
    return out, meta, stats, kinds


class C09(Prop):
    id = 'C09'
    num = 9
    soft_clauses = (151, 154, 155)
    # K2 on the stage-1 slice (transition matrices, class-change matrices): class, priority and destination of every customer and record
    k2_mask = {('ind', 'cls'), ('ind', 'pcls'), ('ind', 'prio'), ('ind', 'dest'), ('ind', 'node'), ('rec', 'cls'), ('rec', 'ocls'), ('rec', 'dest'), ('rec', 'node'), ('rec', '*'), ('ind', '*')}
    k2_frames = 40
    k2_invs2 = {'prio', 'rows2'}         # the stage-2 T2 invariants (Inv/AllRun2.invs2_b) this property answers for on real snapshots
    k2_invs = {'rows'}          # the T2 hypothesis (Route.rows_ok) this property answers for on real configurations
    regions = {'quick': [('routers', 320), ('core', 80), ('block', 40), ('renege', 40), ('preempt', 40), ('prio_reroute', 30), ('jsq_preempt', 80), ('renege_jockey', 40),
                         ('sched_reroute', 20), ('dyn', 30), ('all', 80), ('jsq_sched', 80)]}
    rule = ('one case = one observed run; one acceptor event per routing / class-change decision with the specification taken from the '
            'configuration, the uniform draw consumed and the true queue sizes at that instant; non-trivial = the run had >= 1 JSQ/LB decision '
            'with unequal lines or >= 2 router kinds and >= 10 decisions; distinct = distinct configuration hashes')
    clause_text = {150: 'a transition / class change of probability zero occurred', 151: 'mechanism: random_choice did not select the entry the model computes from the draw',
                   152: 'Direct / Leave / jockeying default went elsewhere', 153: 'JSQ / LB chose a node that is not a listed destination with minimal TRUE line / population (or not the first under tie_break order)',
                   154: 'mechanism: tie between minimal nodes / uniform choice not resolved as the model computes from the draw',
                   155: 'mechanism: the counters JSQ/LB read differ from the true waiting lines / populations',
                   156: 'Cycle router out of step', 157: 'process-based route not followed in order', 158: 'flexible process-based route: destination not in the current subset or route not consumed per rule',
                   159: "a customer's priority does not correspond to its current class", 160: 'class changed at a node without class-change matrix'}

    def project(self, tr, relaxed=False):
        return [1 if relaxed else 0, events(tr)[0]]

    def nontrivial(self, tr):
        ev, meta, st, kinds = events(tr)
        return st['jsq_unequal'] >= 1 or (len(kinds) >= 2 and st['routes'] >= 10)

    def sample(self, tr):
        ev, meta, st, kinds = events(tr)
        return {'n_events': len(ev), 'some_decisions': [e for e in ev if e[0] != 9][:10], 'stats': st, 'router_kinds': sorted(kinds),
                'region': tr.cfg.get('region'), 'gen_seed': tr.cfg.get('gen_seed')}

    def stats(self, tr):
        ev, meta, st, kinds = events(tr)
        st = dict(st)
        for kd in kinds:
            st['runs_with_' + kd] = 1
        return st

    def frame_index(self, tr, k):
        meta = events(tr)[1]
        return meta[k] if 0 <= k < len(meta) else len(tr.frames)

    def explain(self, tr, v):
        if v[0] != 'R':
            return None
        ev, meta, st, kinds = events(tr)
        k = v[1]
        return {'event_index': k, 'event': ev[k] if k < len(ev) else None, 'frame': meta[k] if k < len(meta) else None,
                'routing': tr.cfg['routing'], 'preempt': tr.cfg.get('preempt')}


PROP = C09()

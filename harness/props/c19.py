"""C19 processor sharing: the real ciw.PSNode is run on exact rationals (integer
inter-arrival draws, fractions.Fraction work requirements, Fraction threshold) and compared
with the extracted Gallina model of Sub/PS.v (the acceptor Acc/C19.v does the comparison
with Qeq_bool): every customer's arrival / service-start / exit date, and the node's slice
(time_left, with_server, end dates, date_last_update, last_occupancy) after the last event
of every instant.  For capacity = infinity and threshold = 1 a twin run with a plain
single-server ciw.Node is compared with the Lindley model and the instants at which the two
nodes empty must coincide.  A second family of cases runs small networks (PS and ordinary
nodes, feedback, two classes) on exact rationals and checks every PS node in them against the
same model, the node's accept log being the arrival list."""
import random, hashlib, json, traceback
from fractions import Fraction as F
from framework import Prop
import sx

INF = float('inf')


class Inexact(Exception):
    pass


class NotADate(Exception):
    """a field that must hold a date / amount of work holds False, None, ... : never discarded, always reported"""


def q(x):
    """exact rational -> [num, den]; a float (inexact arithmetic crept in) -> Inexact (case discarded and counted);
    anything else (False: e.g. a record of a customer that never started service) -> NotADate (a violation)"""
    if isinstance(x, float):
        raise Inexact(repr(x))
    if isinstance(x, bool) or not isinstance(x, (int, F)):
        raise NotADate(repr(x))
    x = F(x)
    return [x.numerator, x.denominator]


def gen_case(dseed, tier):
    rng = random.Random('c19/%d' % dseed)
    big = tier != 'quick' and rng.random() < 0.3
    n = rng.randint(1, 30 if big else 12)
    mode = rng.random()
    if mode < 0.5:      # tie-rich: small grid, simultaneous arrivals and departures are common
        ia = [rng.choice([0, 0, 1, 1, 1, 2, 3]) for _ in range(n)]
        w = [F(rng.randint(0, 12), rng.choice([1, 1, 2, 3, 4])) for _ in range(n)]
    elif mode < 0.8:    # heavy load: many customers share for a long time
        ia = [rng.choice([0, 1, 1, 1, 2]) for _ in range(n)]
        w = [F(rng.randint(1, 40), rng.choice([1, 2, 3, 5, 7])) for _ in range(n)]
    else:               # tie-free-ish: larger distinct numbers
        ia = [rng.randint(0, 9) for _ in range(n)]
        w = [F(rng.randint(0, 200), rng.choice([1, 7, 11, 13])) for _ in range(n)]
    r = rng.random()
    if r < 0.3:
        K, R = 'inf', F(1)
    else:
        K = rng.choice([1, 1, 2, 2, 3, 4, 'inf'])
        R = rng.choice([F(1), F(1), F(2), F(3), F(3, 2), F(5, 2), F(1, 2)])
    return {'K': K, 'R': q(R), 'ia': ia, 'w': [q(x) for x in w], 'seeds': [rng.randrange(1 << 30), rng.randrange(1 << 30)]}


def run_impl(ciw, case, seed, node_class, K, R):
    """the REAL node class on exact numbers; returns (records, snapshots)"""
    ia, w = case['ia'], [F(a, b) for a, b in case['w']]

    class Arr(ciw.dists.Distribution):
        def __init__(self):
            self.i = 0

        def sample(self, t=None, ind=None):
            if self.i < len(ia):
                self.i += 1
                return ia[self.i - 1]
            return INF                      # no further arrivals

    class Req(ciw.dists.Distribution):
        """work requirement of customer j (by id number) as an exact Fraction"""
        def sample(self, t=None, ind=None):
            return w[ind.id_number - 1]

        def _sample(self, t=None, ind=None):   # the stock validity check only admits int/float
            s = self.sample(t, ind)
            if s < 0:
                raise ValueError('Invalid time sampled.')
            return s

    snaps = []

    class Snap(ciw.trackers.StateTracker):
        def timestamp(self):
            super().timestamp()
            snaps.append(snap_node(self.simulation))

    N = ciw.create_network(arrival_distributions=[Arr()], service_distributions=[Req()],
                           number_of_servers=[K], ps_thresholds=[R])
    ciw.seed(seed)
    Q = ciw.Simulation(N, node_class=node_class, tracker=Snap())
    snaps.append([[0, 1], 0, []])           # before any event: clock 0 (a float 0.0 in Ciw), empty node
    if Q.nodes[1].all_individuals or getattr(Q.nodes[1], 'last_occupancy', 0) != 0 or Q.current_time != 0:
        raise AssertionError('initial state is not the empty node at time 0')
    Q.simulate_until_max_time(10 ** 12)
    recs = [[r.id_number, q(r.arrival_date), q(r.service_start_date), q(r.exit_date)] for r in Q.get_all_records()]
    bad = [r for r in Q.get_all_records() if r.record_type != 'service' or r.node != 1]
    if bad:
        raise AssertionError('unexpected record %r' % (bad[0],))
    return sorted(recs), snaps


def snap_node(Q):
    nd = Q.nodes[1]
    inds = []
    for ind in nd.all_individuals:
        ws = getattr(ind, 'with_server', False)
        if ws:
            inds.append([ind.id_number, 1, q(ind.service_start_date), q(ind.time_left), q(ind.service_end_date),
                         q(ind.date_last_update)])
        else:
            inds.append([ind.id_number, 0, [0, 1], [0, 1], [0, 1], [0, 1]])
    lo = getattr(nd, 'last_occupancy', 0)
    if isinstance(lo, bool) or not isinstance(lo, int):
        raise Inexact('last_occupancy %r' % (lo,))
    return [q(Q.current_time), lo, inds]


def settle(snaps):
    """keep the state after the last event of every instant"""
    out = []
    for i, s in enumerate(snaps):
        if i + 1 < len(snaps) and F(*snaps[i + 1][0]) == F(*s[0]):
            continue
        out.append(s)
    return out


def occ_changes(recs):
    """per customer: how many times the number of customers in service changed strictly inside its service"""
    ev = {}
    for r in recs:
        s, e = F(*r[2]), F(*r[3])
        ev[s] = ev.get(s, 0) + 1
        ev[e] = ev.get(e, 0) - 1
    times = sorted(t for t in ev if ev[t] != 0)
    best = 0
    for r in recs:
        s, e = F(*r[2]), F(*r[3])
        best = max(best, sum(1 for t in times if s < t < e))
    return best


# ------------------------------------------------------------------ PS nodes inside networks
TAB = [F(0), F(1, 2), F(1), F(1), F(3, 2), F(2), F(7, 3), F(5, 2), F(3), F(10, 3), F(4), F(9, 2), F(1, 4), F(11, 5)]


def gen_tandem(rng, big):
    """feed-forward chain of 2-3 PS nodes: a fast upstream PS node (threshold >= capacity, so nobody is slowed
    down, long requirements) feeds downstream PS nodes of small finite capacity 1-2 that are kept full by the
    chain and by fresh external arrivals with short requirements: customers ALREADY SERVED at one PS node
    arrive at a different, full, finite PS node and have to wait there"""
    n = rng.choice([2, 2, 3])
    k = rng.choice([1, 1, 2])
    nodes = [{'ps': True, 'K': rng.choice(['inf', 'inf', 3, 4]), 'R': q(rng.choice([F(3), F(4), F(2), F(1)]))}]
    for j in range(1, n):
        nodes.append({'ps': True, 'K': rng.choice([1, 1, 2, 2, 3]), 'R': q(rng.choice([F(1), F(1), F(1, 2), F(2), F(3, 2)]))})
    arr = []
    for c in range(k):
        row = [[rng.choice([0, 1, 1, 2]) for _ in range(rng.randint(1, 3))]]
        for j in range(1, n):
            row.append([rng.choice([1, 1, 2, 3]) for _ in range(rng.randint(1, 3))] if rng.random() < 0.6 else None)
        for a in row:
            if a is not None and sum(a) == 0:
                a[0] = 1
        arr.append(row)
    routing = []
    for c in range(k):
        m = [[0.0] * n for _ in range(n)]
        for i in range(n - 1):
            m[i][i + 1] = rng.choice([1.0, 1.0, 0.75, 0.5])
            if i + 2 < n and m[i][i + 1] < 1.0 and rng.random() < 0.5:
                m[i][i + 2] = 0.25
        if rng.random() < 0.25:
            m[n - 1][0] = 0.25                      # occasionally close the chain
        routing.append(m)
    mult = [[(rng.randint(1, 9), rng.randint(0, 9), rng.randint(0, 13)) for _ in range(n)] for _ in range(k)]
    # requirement scale per node: long upstream, short downstream (frequent departures from a full node)
    scale = [[q(rng.choice([F(1), F(2), F(3)]))] + [q(rng.choice([F(1), F(1, 2), F(1, 3), F(1, 4)])) for _ in range(1, n)] for _ in range(k)]
    return {'nodes': nodes, 'k': k, 'arr': arr, 'routing': routing, 'mult': mult, 'scale': scale, 'family': 'tandem',
            'T': rng.choice([15, 25, 40] + ([80] if big else [])), 'seed': rng.randrange(1 << 30)}


def gen_net(dseed, tier):
    rng = random.Random('c19net/%d' % dseed)
    big = tier != 'quick' and rng.random() < 0.3
    if rng.random() < 0.5:
        return gen_tandem(rng, big)
    n = rng.choice([1, 2, 2, 3] + ([4] if big else []))
    k = rng.choice([1, 1, 2])
    nodes = []
    for j in range(n):
        if rng.random() < 0.65 or (j == n - 1 and not any(x['ps'] for x in nodes)):
            nodes.append({'ps': True, 'K': rng.choice([1, 2, 2, 3, 4, 'inf', 'inf']),
                          'R': q(rng.choice([F(1), F(1), F(2), F(3), F(3, 2), F(1, 2)]))})
        else:
            nodes.append({'ps': False, 'K': rng.choice([1, 2, 'inf']), 'R': [1, 1]})
    arr = [[([rng.choice([0, 1, 1, 2, 3, 5]) for _ in range(rng.randint(1, 4))] if rng.random() < 0.7 else None)
            for _ in range(n)] for _ in range(k)]
    if all(a is None for row in arr for a in row):
        arr[0][0] = [1, 2]
    for row in arr:
        for a in row:
            if a is not None and sum(a) == 0:
                a[0] = 2
    routing = []
    for c in range(k):
        m = []
        for i in range(n):
            row = [0.0] * n
            budget = 4
            for j in range(n):
                if rng.random() < 0.5 and budget > 0:
                    x = rng.randint(1, min(2, budget))
                    row[j] = x / 4.0            # feedback (incl. self loops) with probability <= 3/4 overall
                    budget -= x
            if sum(row) >= 1.0:
                row[rng.randrange(n)] = 0.0
            m.append(row)
        routing.append(m)
    mult = [[(rng.randint(1, 9), rng.randint(0, 9), rng.randint(0, 13)) for _ in range(n)] for _ in range(k)]
    return {'nodes': nodes, 'k': k, 'arr': arr, 'routing': routing, 'mult': mult, 'T': rng.choice([15, 25, 40] + ([80] if big else [])),
            'seed': rng.randrange(1 << 30)}


def run_net(ciw, cfg):
    """a network with PS nodes on exact rationals; returns per PS node (accept log, records in visit order)"""
    n, k = len(cfg['nodes']), cfg['k']
    accept_log = {j + 1: [] for j in range(n)}     # node -> [(ind id, date)] in the order of Node.accept
    draws = {j + 1: {} for j in range(n)}          # node -> ind id -> [requirements drawn, in order]

    def mk_arr(seq):
        class Arr(ciw.dists.Distribution):
            def __init__(self):
                self.i = 0

            def sample(self, t=None, ind=None):
                self.i += 1
                return seq[(self.i - 1) % len(seq)]
        return Arr()

    def mk_req(node, a, b, c, sc=F(1)):
        class Req(ciw.dists.Distribution):
            def sample(self, t=None, ind=None):
                l = draws[node].setdefault(ind.id_number, [])
                v = TAB[(a * ind.id_number + b * len(l) + c) % len(TAB)] * sc
                l.append(v)
                return v

            def _sample(self, t=None, ind=None):
                return self.sample(t, ind)
        return Req()

    class LPS(ciw.PSNode):
        def accept(self, next_individual, completed=False):
            accept_log[self.id_number].append((next_individual.id_number, self.now))
            super().accept(next_individual, completed)

    names = ['Class %d' % c for c in range(k)]
    N = ciw.create_network(
        arrival_distributions={names[c]: [mk_arr(a) if a is not None else None for a in cfg['arr'][c]] for c in range(k)},
        service_distributions={names[c]: [mk_req(j + 1, *cfg['mult'][c][j], sc=(F(*cfg['scale'][c][j]) if 'scale' in cfg else F(1)))
                                          for j in range(n)] for c in range(k)},
        routing={names[c]: cfg['routing'][c] for c in range(k)},
        number_of_servers=[(INF if x['K'] == 'inf' else x['K']) for x in cfg['nodes']],
        ps_thresholds=[F(*x['R']) for x in cfg['nodes']])
    ciw.seed(cfg['seed'])
    Q = ciw.Simulation(N, node_class=[LPS if x['ps'] else ciw.Node for x in cfg['nodes']])
    Q.simulate_until_max_time(cfg['T'])
    per_ind = {}
    for ind in Q.get_all_individuals():
        for r in ind.data_records:
            if r.record_type != 'service':
                raise AssertionError('unexpected record type %r' % (r.record_type,))
            per_ind.setdefault((r.node, r.id_number), []).append(r)
    out = []
    for j, x in enumerate(cfg['nodes']):
        if not x['ps']:
            continue
        node = j + 1
        seen = {}
        arrs, recs = [], []
        stale_waits = 0     # visits of a customer already served at ANOTHER PS node that has to wait here (node full)
        ps_ids = [m + 1 for m, y in enumerate(cfg['nodes']) if y['ps'] and m != j]
        for vid, (iid, t) in enumerate(accept_log[node]):
            kth = seen.get(iid, 0)
            seen[iid] = kth + 1
            dl = draws[node].get(iid, [])
            w = dl[kth] if kth < len(dl) else F(0)      # never started before the horizon: requirement not yet drawn
            tq, wq = q(t), q(w)
            arrs.append([vid + 1, tq[0], tq[1], wq[0], wq[1]])
            rl = per_ind.get((node, iid), [])
            waited = not (kth < len(rl)) or rl[kth].service_start_date is False or rl[kth].service_start_date > t
            if waited and any(r2.exit_date <= t for m in ps_ids for r2 in per_ind.get((m, iid), [])):
                stale_waits += 1
            if kth < len(rl):
                r = rl[kth]
                recs.append([vid + 1, q(r.arrival_date), q(r.service_start_date), q(r.exit_date)])
        out.append({'node': node, 'K': x['K'], 'R': x['R'], 'arrs': arrs, 'recs': recs, 'revisits': any(v > 1 for v in seen.values()),
                    'stale_waits': stale_waits})
    return out


class C19(Prop):
    id = 'C19'
    num = 19
    regions = {'quick': []}
    rule = ('one case = (a) one input of a single PS node (capacity 1..4 or inf, threshold in {1/2,1,3/2,2,5/2,3}, <= 12 (thorough: <= 30) '
            'arrivals with integer inter-arrival draws and Fraction work requirements) run through the real ciw.PSNode on exact rationals '
            'under two tie-break seeds and compared exactly with the extracted Gallina model: dates of every customer and the node slice '
            '(time_left, with_server, end dates, last update, last_occupancy) after the last event of every instant; for capacity inf / '
            'threshold 1 also a twin run of ciw.Node with one server (Lindley model, emptying instants); or (b) one network of 1-4 nodes '
            '(PS and ordinary nodes, 1-2 classes, feedback routing incl. self loops, no blocking; half of them feed-forward chains of 2-3 PS '
            'nodes whose downstream nodes have capacity 1-3 and are kept full, so customers already served at one PS node wait at another) '
            'run on exact rationals, where each PS '
            "node's accept log is the model's arrival list (one id per visit) and each of its records must carry the model's dates, and "
            'every model departure before the horizon must have a record. non-trivial = the number of customers in service changed >= 3 '
            "times strictly inside one customer's service; distinct = distinct inputs (hash)")
    clause_text = {190: 'a customer of the implementation is unknown to the model / number of records differs from the number of arrivals',
                   191: 'arrival date differs from the model', 192: 'service start date differs from the model (capacity / FCFS clause)',
                   193: 'exit date differs from the model (rate / work clause)',
                   194: 'FIFO twin (ciw.Node, one server) differs from the Lindley model',
                   195: 'FIFO equivalence: the unlimited PS node and the FIFO node empty at different instants',
                   196: 'the model run is incomplete', 197: 'PS node slice (time_left / with_server / end dates / last_occupancy) differs from the model at an instant',
                   198: 'number of distinct event instants differs from the model', 199: 'the implementation raised an exception',
                   200: 'a record or PS-node field that must be a date is False / not a number (e.g. a customer left without ever starting service)'}
    level_text = 'proof'
    assumptions = ['single priority class at the PS node, no blocking into or out of it, one visit per customer',
                   'the implementation is driven on exact rationals (int / fractions.Fraction); a case in which a float appears is discarded and counted',
                   'ties between simultaneous events are resolved at random by Ciw; dates and per-instant states do not depend on the resolution (checked under two seeds per case)']

    def jobs(self, tier, seed):
        m = 2000 if tier == 'quick' else 60000
        m2 = 500 if tier == 'quick' else 15000
        return [{'custom': 'ps', 'dseed': seed * 7919 + i, 'tier': tier} for i in range(m)] + \
               [{'custom': 'net', 'dseed': seed * 7919 + i, 'tier': tier} for i in range(m2)]

    def build_tree(self, case, recs, snaps, frecs):
        arrs = []
        t = 0
        for j, (d, wq) in enumerate(zip(case['ia'], case['w'])):
            t += d
            arrs.append([j + 1, t, 1, wq[0], wq[1]])
        K = 'inf' if case['K'] == 'inf' else case['K']
        return [K, case['R'][0], case['R'][1], arrs, recs, [snaps], [] if frecs is None else [frecs], []]

    def custom_work(self, job, drv):
        import obs
        ciw = obs.ciw
        if job.get('custom') == 'net':
            return self.custom_net(job, drv, ciw)
        case = job.get('cfg') or gen_case(job['dseed'], job.get('tier', 'quick'))
        case = case.get('input', case)
        h = hashlib.sha1(json.dumps({k: case[k] for k in ('K', 'R', 'ia', 'w')}, sort_keys=True).encode()).hexdigest()[:16]
        K = INF if case['K'] == 'inf' else case['K']
        R = F(*case['R'])
        twin = (case['K'] == 'inf' and R == 1)
        res = {'region': 'ps-single-node', 'gseed': job.get('dseed'), 'hash': h, 'nframes': 2 * len(case['ia']), 'exc': None,
               'status': 'ok', 'stats': {}}
        verdict = None
        first = None
        why = None
        try:
            for seed in case['seeds']:
                recs, snaps = run_impl(ciw, case, seed, ciw.PSNode, K, R)
                frecs = None
                if twin:
                    frecs, _ = run_impl(ciw, case, seed, ciw.Node, 1, 1)
                tree = self.build_tree(case, recs, settle(snaps), frecs)
                v = drv.ask(self.num, sx.dump(tree))
                if first is None:
                    first = (tree, recs, v)
                verdict = v
                if v[0] != 'A':
                    first = (tree, recs, v)
                    break
        except Inexact as e:
            res['status'] = 'inexact'
            return res
        except NotADate as e:
            verdict = ('R', 0, 200, [])
            why = 'field value %s where a date is required; %s' % (e, traceback.format_exc()[-700:])
        except Exception as e:
            verdict = ('R', 0, 199, [])
            why = traceback.format_exc()[-1200:]
        res['verdict'] = verdict
        recs = first[1] if first else []
        oc = occ_changes(recs) if recs else 0
        res['nontrivial'] = oc >= 3
        kk = 'cap_inf' if case['K'] == 'inf' else 'cap_%d' % case['K']
        res['stats'] = {kk: 1, 'thr_%d/%d' % tuple(case['R']): 1, 'customers': len(case['ia']),
                        'occchg_%s' % ('0' if oc == 0 else '1-2' if oc <= 2 else '3-5' if oc <= 5 else '6-10' if oc <= 10 else '11+'): 1,
                        'fifo_twin_cases': 1 if twin else 0,
                        'cases_with_waiting': 1 if any(F(*r[2]) > F(*r[1]) for r in recs) else 0,
                        'cases_with_simultaneous_events': 1 if len(set(tuple(r[3]) for r in recs) | set(tuple(r[1]) for r in recs)) < 2 * len(recs) else 0}
        if verdict[0] != 'A':
            model = drv.ask('m190', sx.dump(self.build_tree(case, [], [], None)[:4]))
            res['cfg'] = {'input': case, 'replay_job': {'custom': 'ps'},
                          'implementation_records(id, arrival, start, exit)': recs,
                          'model(departures, starts, settled states)': model[1] if model[0] == 'M' else str(model)}
            res['finding'] = None
            res['detail'] = why or self.explain_case(case, first, verdict)
        if job.get('want_sample'):
            res['sample'] = {'capacity': case['K'], 'threshold': '%d/%d' % tuple(case['R']), 'inter_arrivals': case['ia'],
                             'requirements': ['%d/%d' % tuple(x) for x in case['w']],
                             'records(id, arrival, start, exit)': [[r[0]] + ['%d/%d' % tuple(x) for x in r[1:]] for r in recs[:6]],
                             'max_occupancy_changes_during_one_service': oc, 'verdict': list(verdict[:1])}
        if job.get('want_kernel') and first and len(case['ia']) <= 8:
            res['kernel_case'] = sx.to_coq(first[0])
        return res

    def custom_net(self, job, drv, ciw):
        """PS nodes inside a network (feedback, several classes, internal arrivals at rational instants):
        each PS node's accept log is the model's arrival list, its data records must carry the model's dates"""
        cfg = job.get('cfg') or gen_net(job['dseed'], job.get('tier', 'quick'))
        cfg = cfg.get('input', cfg)
        h = hashlib.sha1(json.dumps(cfg, sort_keys=True).encode()).hexdigest()[:16]
        res = {'region': 'ps-in-network', 'gseed': job.get('dseed'), 'hash': h, 'nframes': 0, 'exc': None, 'status': 'ok', 'stats': {}}
        verdict, why, bad, per = ('A', []), None, None, []
        try:
            per = run_net(ciw, cfg)
            while any(len(pn['arrs']) > 45 for pn in per) and cfg['T'] > 4:
                cfg['T'] //= 2                      # overloaded node: keep the case small (the model runs to completion)
                per = run_net(ciw, cfg)
            for pn in per:
                K = 'inf' if pn['K'] == 'inf' else pn['K']
                tree = [K, pn['R'][0], pn['R'][1], pn['arrs'], pn['recs'], [], [], [[cfg['T'], 1]]]
                pn['tree'] = tree
                v = drv.ask(self.num, sx.dump(tree))
                if v[0] != 'A':
                    verdict, bad = v, pn
                    break
        except Inexact:
            res['status'] = 'inexact'
            return res
        except NotADate as e:
            verdict = ('R', 0, 200, [])
            why = 'field value %s where a date is required; %s' % (e, traceback.format_exc()[-700:])
        except Exception:
            verdict = ('R', 0, 199, [])
            why = traceback.format_exc()[-1200:]
        res['verdict'] = verdict
        res['nframes'] = sum(len(pn['arrs']) + len(pn['recs']) for pn in per)
        oc = max([occ_changes(pn['recs']) for pn in per if pn['recs']] or [0])
        res['nontrivial'] = oc >= 3
        st = {'network_cases': 1, 'network_tandem_cases': 1 if cfg.get('family') == 'tandem' else 0,
              'network_waits_at_full_ps_node_after_service_at_another_ps_node': sum(pn['stale_waits'] for pn in per),
              'network_ps_nodes': len(per), 'network_ps_visits': sum(len(pn['arrs']) for pn in per),
              'network_ps_records': sum(len(pn['recs']) for pn in per),
              'network_cases_with_revisits': 1 if any(pn['revisits'] for pn in per) else 0,
              'occchg_%s' % ('0' if oc == 0 else '1-2' if oc <= 2 else '3-5' if oc <= 5 else '6-10' if oc <= 10 else '11+'): 1}
        for pn in per:
            kk = 'cap_inf' if pn['K'] == 'inf' else 'cap_%d' % pn['K']
            st[kk] = st.get(kk, 0) + 1
            tk = 'thr_%d/%d' % tuple(pn['R'])
            st[tk] = st.get(tk, 0) + 1
        res['stats'] = st
        if verdict[0] != 'A':
            model = drv.ask('m190', sx.dump(bad['tree'][:4])) if bad else None
            res['cfg'] = {'input': cfg, 'replay_job': {'custom': 'net'}, 'ps_node': bad and bad['node'],
                          'arrivals(visit id, date, requirement)': bad and bad['arrs'],
                          'implementation_records(visit id, arrival, start, exit)': bad and bad['recs'],
                          'model(departures, starts, settled states)': model[1] if model and model[0] == 'M' else str(model)}
            res['finding'] = None
            res['detail'] = why or self.explain_case(cfg, None, verdict)
        if job.get('want_sample'):
            res['sample'] = {'network': {kk: cfg[kk] for kk in ('nodes', 'k', 'arr', 'routing', 'T')},
                             'ps_nodes': [{'node': pn['node'], 'visits': len(pn['arrs']), 'records': len(pn['recs']),
                                           'first_records(visit, arrival, start, exit)': [[r[0]] + ['%d/%d' % tuple(x) for x in r[1:]] for r in pn['recs'][:4]]}
                                          for pn in per],
                             'max_occupancy_changes_during_one_service': oc, 'verdict': list(verdict[:1])}
        if job.get('want_kernel') and per and len(per[0]['arrs']) <= 8:
            res['kernel_case'] = sx.to_coq(per[0]['tree'])
        return res

    def explain_case(self, case, first, v):
        if v[0] != 'R':
            return str(v)
        return {'clause': self.clause_text.get(v[2]), 'customer_or_instant_index': v[1], 'info': v[3]}

    def extra_coverage(self, results):
        caps, thr, occ = {}, {}, {}
        for r in results:
            for k, val in (r.get('stats') or {}).items():
                if k.startswith('cap_'):
                    caps[k[4:]] = caps.get(k[4:], 0) + val
                elif k.startswith('thr_'):
                    thr[k[4:]] = thr.get(k[4:], 0) + val
                elif k.startswith('occchg_'):
                    occ[k[7:]] = occ.get(k[7:], 0) + val
        return {'capacity_values_covered': caps, 'thresholds_covered': thr,
                'max_occupancy_changes_during_one_service_distribution': occ,
                'comparison': 'exact rationals (Qeq_bool in the extracted acceptor); no float is ever compared'}


PROP = C19()

"""C19 processor sharing: the real ciw.PSNode is run on exact rationals (integer
inter-arrival draws, fractions.Fraction work requirements, Fraction threshold) and compared
with the extracted Gallina model of Sub/PS.v (the acceptor Acc/C19.v does the comparison
with Qeq_bool): every customer's arrival / service-start / exit date, and the node's slice
(time_left, with_server, end dates, date_last_update, last_occupancy) after the last event
of every instant.  For capacity = infinity and threshold = 1 a twin run with a plain
single-server ciw.Node is compared with the Lindley model and the instants at which the two
nodes empty must coincide."""
import random, hashlib, json, traceback
from fractions import Fraction as F
from framework import Prop
import sx

INF = float('inf')


class Inexact(Exception):
    pass


def q(x):
    """exact rational -> [num, den]; anything else (a float crept in) -> Inexact"""
    if isinstance(x, bool) or not isinstance(x, (int, F)):
        raise Inexact(repr(x))
    x = F(x)
    return [x.numerator, x.denominator]


def gen_case(dseed, tier):
    rng = random.Random('c19/%d' % dseed)
    big = tier != 'quick' and rng.random() < 0.3
    n = rng.randint(1, 30 if big else 12)
    mode = rng.random()
    if mode < 0.5:      # tie-rich: small grid, simultaneous arrivals and departures are common
        ia = [rng.choice([0, 0, 1, 1, 1, 2, 3]) for _ in range(n)]
        w = [F(rng.randint(0, 12), rng.choice([1, 1, 2, 3, 4])) for _ in range(n)]
    elif mode < 0.8:    # heavy load: many customers share for a long time
        ia = [rng.choice([0, 1, 1, 1, 2]) for _ in range(n)]
        w = [F(rng.randint(1, 40), rng.choice([1, 2, 3, 5, 7])) for _ in range(n)]
    else:               # tie-free-ish: larger distinct numbers
        ia = [rng.randint(0, 9) for _ in range(n)]
        w = [F(rng.randint(0, 200), rng.choice([1, 7, 11, 13])) for _ in range(n)]
    r = rng.random()
    if r < 0.3:
        K, R = 'inf', F(1)
    else:
        K = rng.choice([1, 1, 2, 2, 3, 4, 'inf'])
        R = rng.choice([F(1), F(1), F(2), F(3), F(3, 2), F(5, 2), F(1, 2)])
    return {'K': K, 'R': q(R), 'ia': ia, 'w': [q(x) for x in w], 'seeds': [rng.randrange(1 << 30), rng.randrange(1 << 30)]}


def run_impl(ciw, case, seed, node_class, K, R):
    """the REAL node class on exact numbers; returns (records, snapshots)"""
    ia, w = case['ia'], [F(a, b) for a, b in case['w']]

    class Arr(ciw.dists.Distribution):
        def __init__(self):
            self.i = 0

        def sample(self, t=None, ind=None):
            if self.i < len(ia):
                self.i += 1
                return ia[self.i - 1]
            return INF                      # no further arrivals

    class Req(ciw.dists.Distribution):
        """work requirement of customer j (by id number) as an exact Fraction"""
        def sample(self, t=None, ind=None):
            return w[ind.id_number - 1]

        def _sample(self, t=None, ind=None):   # the stock validity check only admits int/float
            s = self.sample(t, ind)
            if s < 0:
                raise ValueError('Invalid time sampled.')
            return s

    snaps = []

    class Snap(ciw.trackers.StateTracker):
        def timestamp(self):
            super().timestamp()
            snaps.append(snap_node(self.simulation))

    N = ciw.create_network(arrival_distributions=[Arr()], service_distributions=[Req()],
                           number_of_servers=[K], ps_thresholds=[R])
    ciw.seed(seed)
    Q = ciw.Simulation(N, node_class=node_class, tracker=Snap())
    snaps.append([[0, 1], 0, []])           # before any event: clock 0 (a float 0.0 in Ciw), empty node
    if Q.nodes[1].all_individuals or getattr(Q.nodes[1], 'last_occupancy', 0) != 0 or Q.current_time != 0:
        raise AssertionError('initial state is not the empty node at time 0')
    Q.simulate_until_max_time(10 ** 12)
    recs = [[r.id_number, q(r.arrival_date), q(r.service_start_date), q(r.exit_date)] for r in Q.get_all_records()]
    bad = [r for r in Q.get_all_records() if r.record_type != 'service' or r.node != 1]
    if bad:
        raise AssertionError('unexpected record %r' % (bad[0],))
    return sorted(recs), snaps


def snap_node(Q):
    nd = Q.nodes[1]
    inds = []
    for ind in nd.all_individuals:
        ws = getattr(ind, 'with_server', False)
        if ws:
            inds.append([ind.id_number, 1, q(ind.service_start_date), q(ind.time_left), q(ind.service_end_date),
                         q(ind.date_last_update)])
        else:
            inds.append([ind.id_number, 0, [0, 1], [0, 1], [0, 1], [0, 1]])
    lo = getattr(nd, 'last_occupancy', 0)
    if isinstance(lo, bool) or not isinstance(lo, int):
        raise Inexact('last_occupancy %r' % (lo,))
    return [q(Q.current_time), lo, inds]


def settle(snaps):
    """keep the state after the last event of every instant"""
    out = []
    for i, s in enumerate(snaps):
        if i + 1 < len(snaps) and F(*snaps[i + 1][0]) == F(*s[0]):
            continue
        out.append(s)
    return out


def occ_changes(recs):
    """per customer: how many times the number of customers in service changed strictly inside its service"""
    ev = {}
    for r in recs:
        s, e = F(*r[2]), F(*r[3])
        ev[s] = ev.get(s, 0) + 1
        ev[e] = ev.get(e, 0) - 1
    times = sorted(t for t in ev if ev[t] != 0)
    best = 0
    for r in recs:
        s, e = F(*r[2]), F(*r[3])
        best = max(best, sum(1 for t in times if s < t < e))
    return best


class C19(Prop):
    id = 'C19'
    num = 19
    regions = {'quick': []}
    rule = ('one case = one input of a single PS node (capacity, threshold, <= 12 (thorough: <= 30) arrivals with integer '
            'inter-arrival draws and Fraction work requirements) run through the real ciw.PSNode on exact rationals under two '
            'tie-break seeds and compared exactly with the extracted Gallina model (dates of every customer and the node slice at '
            'every instant); for capacity inf / threshold 1 also a twin run of ciw.Node with one server. non-trivial = the number of '
            'customers in service changed >= 3 times strictly inside one customer\'s service; distinct = distinct inputs (hash)')
    clause_text = {190: 'a customer of the implementation is unknown to the model / number of records differs from the number of arrivals',
                   191: 'arrival date differs from the model', 192: 'service start date differs from the model (capacity / FCFS clause)',
                   193: 'exit date differs from the model (rate / work clause)',
                   194: 'FIFO twin (ciw.Node, one server) differs from the Lindley model',
                   195: 'FIFO equivalence: the unlimited PS node and the FIFO node empty at different instants',
                   196: 'the model run is incomplete', 197: 'PS node slice (time_left / with_server / end dates / last_occupancy) differs from the model at an instant',
                   198: 'number of distinct event instants differs from the model', 199: 'the implementation raised an exception'}
    level_text = 'proof'
    assumptions = ['single priority class at the PS node, no blocking into or out of it, one visit per customer',
                   'the implementation is driven on exact rationals (int / fractions.Fraction); a case in which a float appears is discarded and counted',
                   'ties between simultaneous events are resolved at random by Ciw; dates and per-instant states do not depend on the resolution (checked under two seeds per case)']

    def jobs(self, tier, seed):
        m = 700 if tier == 'quick' else 40000
        return [{'custom': 'ps', 'dseed': seed * 7919 + i, 'tier': tier} for i in range(m)]

    def build_tree(self, case, recs, snaps, frecs):
        arrs = []
        t = 0
        for j, (d, wq) in enumerate(zip(case['ia'], case['w'])):
            t += d
            arrs.append([j + 1, t, 1, wq[0], wq[1]])
        K = 'inf' if case['K'] == 'inf' else case['K']
        return [K, case['R'][0], case['R'][1], arrs, recs, snaps, [] if frecs is None else [frecs]]

    def custom_work(self, job, drv):
        import obs
        ciw = obs.ciw
        case = job.get('cfg') or gen_case(job['dseed'], job.get('tier', 'quick'))
        case = case.get('input', case)
        h = hashlib.sha1(json.dumps({k: case[k] for k in ('K', 'R', 'ia', 'w')}, sort_keys=True).encode()).hexdigest()[:16]
        K = INF if case['K'] == 'inf' else case['K']
        R = F(*case['R'])
        twin = (case['K'] == 'inf' and R == 1)
        res = {'region': 'ps-single-node', 'gseed': job.get('dseed'), 'hash': h, 'nframes': 2 * len(case['ia']), 'exc': None,
               'status': 'ok', 'stats': {}}
        verdict = None
        first = None
        why = None
        try:
            for seed in case['seeds']:
                recs, snaps = run_impl(ciw, case, seed, ciw.PSNode, K, R)
                frecs = None
                if twin:
                    frecs, _ = run_impl(ciw, case, seed, ciw.Node, 1, 1)
                tree = self.build_tree(case, recs, settle(snaps), frecs)
                v = drv.ask(self.num, sx.dump(tree))
                if first is None:
                    first = (tree, recs, v)
                verdict = v
                if v[0] != 'A':
                    first = (tree, recs, v)
                    break
        except Inexact as e:
            res['status'] = 'inexact'
            return res
        except Exception as e:
            verdict = ('R', 0, 199, [])
            why = traceback.format_exc()[-1200:]
        res['verdict'] = verdict
        recs = first[1] if first else []
        oc = occ_changes(recs) if recs else 0
        res['nontrivial'] = oc >= 3
        kk = 'cap_inf' if case['K'] == 'inf' else 'cap_%d' % case['K']
        res['stats'] = {kk: 1, 'thr_%d/%d' % tuple(case['R']): 1, 'customers': len(case['ia']),
                        'occchg_%s' % ('0' if oc == 0 else '1-2' if oc <= 2 else '3-5' if oc <= 5 else '6-10' if oc <= 10 else '11+'): 1,
                        'fifo_twin_cases': 1 if twin else 0,
                        'cases_with_waiting': 1 if any(F(*r[2]) > F(*r[1]) for r in recs) else 0,
                        'cases_with_simultaneous_events': 1 if len(set(tuple(r[3]) for r in recs) | set(tuple(r[1]) for r in recs)) < 2 * len(recs) else 0}
        if verdict[0] != 'A':
            model = drv.ask('m190', sx.dump(self.build_tree(case, [], [], None)[:4]))
            res['cfg'] = {'input': case, 'replay_job': {'custom': 'ps'},
                          'implementation_records(id, arrival, start, exit)': recs,
                          'model(departures, starts, settled states)': model[1] if model[0] == 'M' else str(model)}
            res['finding'] = None
            res['detail'] = why or self.explain_case(case, first, verdict)
        if job.get('want_sample'):
            res['sample'] = {'capacity': case['K'], 'threshold': '%d/%d' % tuple(case['R']), 'inter_arrivals': case['ia'],
                             'requirements': ['%d/%d' % tuple(x) for x in case['w']],
                             'records(id, arrival, start, exit)': [[r[0]] + ['%d/%d' % tuple(x) for x in r[1:]] for r in recs[:6]],
                             'max_occupancy_changes_during_one_service': oc, 'verdict': list(verdict[:1])}
        if job.get('want_kernel') and first and len(case['ia']) <= 8:
            res['kernel_case'] = sx.to_coq(first[0])
        return res

    def explain_case(self, case, first, v):
        if v[0] != 'R':
            return str(v)
        return {'clause': self.clause_text.get(v[2]), 'customer_or_instant_index': v[1], 'info': v[3]}

    def extra_coverage(self, results):
        caps, thr, occ = {}, {}, {}
        for r in results:
            for k, val in (r.get('stats') or {}).items():
                if k.startswith('cap_'):
                    caps[k[4:]] = caps.get(k[4:], 0) + val
                elif k.startswith('thr_'):
                    thr[k[4:]] = thr.get(k[4:], 0) + val
                elif k.startswith('occchg_'):
                    occ[k[7:]] = occ.get(k[7:], 0) + val
        return {'capacity_values_covered': caps, 'thresholds_covered': thr,
                'max_occupancy_changes_during_one_service_distribution': occ,
                'comparison': 'exact rationals (Qeq_bool in the extracted acceptor); no float is ever compared'}


PROP = C19()

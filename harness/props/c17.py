"""C17 state trackers: (1) projection of observed runs onto the acceptor's slice -- the tracker's
hash_state(), RAW configuration facts (who queues where, class, blocked flag, destination), the
Block/Unblock events and the history entries timestamp() appended after each event; the TRUE
state is recomputed in Gallina (Tracker.true_state), not here.  (2) differential of
state_probabilities on synthetic and recorded histories with Fraction timestamps against the
extracted Gallina model (dispatch_model 170), plus an independent exact computation of the time
shares inside the guard of Tracker.state_probabilities_spec, plus the replay of the F-17b
witnesses of the _refuted theorems on the real code."""
import random
from fractions import Fraction as F
from framework import Prop
import sx

TRACKERS = ['SystemPopulation', 'NodePopulation', 'NodePopulationSubset', 'GroupedNodePopulation', 'NodeClassMatrix',
            'NaiveBlocking', 'MatrixBlocking']
INF = float('inf')


def choose_tracker(cfg, tix, rng):
    name = TRACKERS[tix % 7]
    n = cfg['n']
    if name == 'NodePopulationSubset':
        m = rng.randint(1, n)
        nodes = rng.sample(range(n), m)          # any order: the state follows the order given
        return [name, nodes]
    if name == 'GroupedNodePopulation':
        nodes = rng.sample(range(n), rng.randint(1, n))
        g = rng.randint(1, len(nodes))
        groups = [[] for _ in range(g)]
        for i, x in enumerate(nodes):
            groups[i % g if i < g else rng.randrange(g)].append(x)
        return [name, groups]
    if name == 'NodeClassMatrix' and cfg['k'] >= 2 and rng.random() < 0.5:
        perm = list(range(cfg['k']))
        while perm == list(range(cfg['k'])):
            rng.shuffle(perm)
        return [name, perm]          # a custom class_ordering (columns in another order than the alphabetical class order)
    return name


def canon_state(cfg, st):
    """NodeClassMatrix with a custom class_ordering: the tracked matrix has its columns in that order; put them back in class order before
    the acceptor sees it (column of class c = position of c in the ordering)"""
    t = cfg.get('tracker')
    if not (isinstance(t, list) and t[0] == 'NodeClassMatrix' and len(t) > 1 and t[1] is not None):
        return st
    try:
        return [[row[t[1].index(c)] for c in range(len(t[1]))] for row in st]
    except Exception:
        return st


def tracker_name(cfg):
    t = cfg.get('tracker')
    return t if isinstance(t, str) else t[0]


def kind_code(cfg):
    t = cfg['tracker']
    name = tracker_name(cfg)
    k = TRACKERS.index(name) + 1
    if name == 'NodePopulationSubset':
        return [k, list(t[1])]
    if name == 'GroupedNodePopulation':
        return [k, [list(g) for g in t[1]]]
    if name == 'NodeClassMatrix':
        return [k, cfg['k']]
    return [k, []]


def raw_of(s):
    """raw facts only: per node, customers in queue order (priority lists concatenated):
    [id, class, class admitted under, blocked flag, destination id or 0]"""
    out = []
    for n in s['nodes']:
        q = []
        for pl in n['queues']:
            for i in pl:
                ind = s['inds'][i]
                d = ind['dest']
                q.append([i, ind['cls'], ind['pcls'], 1 if ind['blocked'] else 0, d if isinstance(d, int) and not isinstance(d, bool) else 0])
        out.append(q)
    return out


def bevs(cev):
    out = []
    for e in cev:
        if e[0] == 'Block':
            out.append([1, e[2]])
        elif e[0] == 'Release' and e[5]:
            out.append([2, e[2]])
    return out


def hist_entries(h):
    return [[t, st] for t, st in h]


def used_frames(tr):
    """a run cut by max_frames stops inside event_and_return_nextnode: timestamp() never ran for that last
    event, so it is not part of the checked trace"""
    return tr.frames[:-1] if tr.stopped else tr.frames


def tracker_raised(tr):
    return bool(tr.exc and tr.exc[1] and str(tr.exc[1]).startswith('state_tracker.py'))


# ---------------------------------------------------------------- tiny parser for model output
def parse_sx(text):
    toks = text.replace('(', ' ( ').replace(')', ' ) ').split()
    pos = [0]

    def item():
        t = toks[pos[0]]
        pos[0] += 1
        if t == '(':
            out = []
            while toks[pos[0]] != ')':
                out.append(item())
            pos[0] += 1
            return out
        return int(t)
    return item()


# ---------------------------------------------------------------- state_probabilities differential
_SIM = {}


def _fresh_tracker():
    """a real tracker object attached to a real (one-node) Simulation, so that
    self.simulation.nodes[1].increment_time is the real one"""
    import obs
    ciw = obs.ciw
    if 'net' not in _SIM:
        _SIM['net'] = ciw.create_network(arrival_distributions=[ciw.dists.Deterministic(1)],
                                         service_distributions=[ciw.dists.Deterministic(1)], number_of_servers=[1])
    t = ciw.trackers.SystemPopulation()
    ciw.Simulation(_SIM['net'], tracker=t)
    return t


def impl_sp(tracker, hist, a, b):
    """the real state_probabilities on a history given as [(Fraction time, state)]"""
    tracker.history = [[t, s] for t, s in hist]
    try:
        r = tracker.state_probabilities(observation_period=(a, INF if b is None else b))
    except ValueError:
        return ['ValueError']
    except ZeroDivisionError:
        return ['ZeroDivisionError']
    except IndexError:
        return ['IndexError']
    return ['ok', list(r.items())]


def model_sp(drv, hist_ids, a, b):
    inp = [[[t.numerator, t.denominator, s] for t, s in hist_ids], [a.numerator, a.denominator],
           [] if b is None else [b.numerator, b.denominator]]
    v = drv.ask('m170', sx.dump(inp))
    if v[0] != 'M':
        return ['driver', v]
    o = parse_sx(v[1])
    code = o[0]
    if code == 0:
        return ['ok', [(e[0], F(e[1], e[2])) for e in o[1]]]
    return [{1: 'IndexError', 2: 'ValueError', 3: 'ZeroDivisionError'}.get(code, 'undecodable')]


def spec_shares(hist, a, b):
    """independent exact computation: share of [max(a, t0), b] spent in each state (finite b, sorted history)"""
    lo = max(a, hist[0][0])
    acc = {}
    for i, (t, s) in enumerate(hist):
        hi = b if i + 1 == len(hist) else min(hist[i + 1][0], b)
        d = hi - max(t, lo)
        if d > 0:
            acc[s] = acc.get(s, 0) + d
    return {s: d / (b - lo) for s, d in acc.items()}


def in_guard(hist, a, b):
    if b is None or not hist:
        return False
    ts = [t for t, _ in hist]
    return all(x <= y for x, y in zip(ts, ts[1:])) and 0 <= a < b and ts[0] < b and all(t != b for t in ts)


def compare_sp(drv, tracker, hist, a, b):
    """returns (category, ok, detail).  hist = [(Fraction, hashable state)]"""
    ids = {}
    for _, s in hist:
        if s not in ids:
            ids[s] = len(ids)
    impl = impl_sp(tracker, hist, a, b)
    model = model_sp(drv, [(t, ids[s]) for t, s in hist], a, b)
    impl_ids = impl if impl[0] != 'ok' else ['ok', [(ids[s], p) for s, p in impl[1]]]
    same = (impl_ids == model) and (impl[0] != 'ok' or all(isinstance(p, F) for _, p in impl[1]))
    detail = {'history': [[str(t), ids[s]] for t, s in hist], 'window': [str(a), 'inf' if b is None else str(b)],
              'impl': str(impl_ids), 'model': str(model)}
    if in_guard(hist, a, b):
        if not same:
            return 'in_guard', False, dict(detail, why='implementation and Gallina model differ inside the guard')
        spec = spec_shares([(t, ids[s]) for t, s in hist], a, b)
        got = dict(impl_ids[1]) if impl[0] == 'ok' else None
        okspec = got is not None and all(got.get(s, 0) == spec.get(s, 0) for s in set(got) | set(spec)) and sum(got.values()) == 1
        if not okspec:
            return 'in_guard', False, dict(detail, spec=str(spec), why='result is not the exact time share / does not sum to 1')
        return 'in_guard', True, detail
    if same:
        cat = 'invalid_window' if impl[0] == 'ValueError' else ('default_window_inf' if b is None else 'outside_guard_finite')
        return cat, True, detail
    # outside the guard the faithful model may only be left behind by an implementation that returns the true shares
    if b is not None and hist and impl[0] == 'ok':
        ts = [t for t, _ in hist]
        if all(x <= y for x, y in zip(ts, ts[1:])) and 0 <= a < b and ts[0] < b:
            spec = spec_shares([(t, ids[s]) for t, s in hist], a, b)
            got = dict(impl_ids[1])
            if all(got.get(s, 0) == spec.get(s, 0) for s in set(got) | set(spec)):
                return 'impl_exact_where_model_is_not', True, detail
    return 'outside_guard', False, dict(detail, why='implementation and faithful Gallina model differ')


def synth_case(rng):
    den = rng.choice([1, 2, 3, 4, 5, 6, 7, 8, 12])
    n = rng.randint(1, 12)
    t = F(rng.choice([0, 0, 0, 1, 2, 5]), den)
    hist = []
    ns = rng.randint(1, 4)
    for _ in range(n):
        hist.append((t, rng.randrange(ns)))
        t = t + F(rng.choice([0, 1, 1, 2, 3, 5, 8]), den)
    ts = [x for x, _ in hist]
    pick = lambda: rng.choice(ts) + F(rng.choice([-3, -1, 0, 0, 1, 2, 7]), den * rng.choice([1, 2]))
    a = max(F(0), pick())
    r2 = rng.random()
    if r2 < 0.12:
        b = None
    elif r2 < 0.24:
        later = [t for t in ts if t > a]
        b = rng.choice(later) if later else ts[-1]          # a history date as window end (F-17b)
    elif r2 < 0.34:
        b = max(a, ts[-1]) + F(rng.randint(1, 9), den)
    elif r2 < 0.92:
        b = a + F(rng.choice([1, 1, 2, 3, 5, 9, 14]), den * rng.choice([1, 2, 3]))
    else:
        b = pick()                                          # possibly <= a: ValueError
    if rng.random() < 0.04:
        a = pick()                                          # possibly negative: ValueError
    if rng.random() < 0.06 and len(hist) > 2:   # unsorted history: differential only
        i = rng.randrange(len(hist) - 1)
        hist[i], hist[i + 1] = hist[i + 1], hist[i]
    if rng.random() < 0.02:
        hist = []
    return hist, a, b


WITNESSES = [
    # (history, a, b, what the Coq theorem says the faithful model returns)
    ([(F(0), 0), (F(1), 1), (F(3), 2), (F(4), 1)], F(0), F(4), ['ok', [(0, F(1, 3)), (1, F(2, 3))]]),      # refuted_end_date
    ([(F(0), 0), (F(4), 1)], F(0), F(4), ['ZeroDivisionError']),                                            # ..._zero_division
    ([(F(0), 0), (F(1), 1), (F(3), 2), (F(4), 1)], F(0), None, ['ok', [(0, F(1, 5)), (1, F(3, 5)), (2, F(1, 5))]]),  # refuted_inf
    ([(F(0), 0)], F(0), None, ['ZeroDivisionError']),                                                       # ..._inf_zero_division
    ([(F(0), 0), (F(1), 1), (F(3), 2), (F(4), 1)], F(1, 2), F(6), ['ok', [(0, F(1, 11)), (1, F(8, 11)), (2, F(2, 11))]]),  # sp_example_in_guard
]


class C17(Prop):
    id = 'C17'
    num = 17
    regions = {'quick': [('core', 28), ('block', 56), ('routers', 21), ('renege', 28), ('preempt', 21), ('renege_preempt', 14),
                         ('prio_reroute', 14), ('sched_reroute', 14), ('sched', 21), ('sched_block', 28), ('schedpre', 21),
                         ('slotted', 21), ('dyn', 28), ('renege_dyn', 35), ('ps', 14), ('deadlock', 28), ('all', 42),
                         ('preempt_block', 14), ('schedpre_block', 14)]}
    thorough_mult = 7
    rule = ('one case = one observed run with one of the seven built-in trackers (tracker = job index mod 7, so every region sees every '
            'tracker), or one call of state_probabilities on a synthetic / recorded Fraction history compared with the extracted Gallina '
            'model and with an independent exact computation of the time shares; non-trivial run = history with >= 10 entries and, for '
            'NaiveBlocking/MatrixBlocking, >= 1 blocking, for NodeClassMatrix >= 1 class change; non-trivial state_probabilities case = '
            'inside the guard with >= 3 history entries inside the window; distinct = distinct configuration hashes (tracker included) / '
            'distinct (history, window)')
    clause_text = {170: 'event times decrease between frames', 171: 'MatrixBlocking: ghost blocking order (Block/Unblock events) and blocked flags disagree',
                   172: 'tracked state differs from the true state of the configuration', 173: 'state changed but timestamp() did not append exactly [event time, state]',
                   174: 'state unchanged but timestamp() appended an entry', 175: 'initial history is not [[0, initial state]]',
                   176: 'initial tracked state differs from the true state', 177: 'final history differs from the entries observed being appended (history rewritten)',
                   178: 'the tracker raised an exception', 180: 'state_probabilities: implementation and Gallina model differ',
                   181: 'state_probabilities: inside the guard the result is not the exact time share'}
    assumptions = ['a blocked customer that has drawn a class change after service counts under the class it was served in (the class of its record at that node)',
                   'state_probabilities is compared on Fraction timestamps (exact); float rounding of the quotient is outside the model']

    # ------------------------------------------------------------ jobs
    def jobs(self, tier, seed):
        js = super().jobs(tier, seed)
        for i, j in enumerate(js):
            j['tix'] = i
        # the blocking trackers need several customers blocked at once (same origin and destination for MatrixBlocking's
        # cell order): extra runs of the blocking-heavy regions with MatrixBlocking (2 of 3) and NaiveBlocking (1 of 3)
        for region, cnt in (('deadlock', 45), ('block', 30), ('sched_block', 15), ('fanout_block', 45)):
            for i in range(cnt * (1 if tier == 'quick' else self.thorough_mult)):
                js.append({'region': region, 'gseed': seed * 100003 + 50000 + i, 'size': 'quick', 'tix': 6 if i % 3 else 5})
        # NodeClassMatrix is the only tracker that sees class changes: extra runs where classes change (after service,
        # while waiting, with reneging)
        for region, cnt in (('renege_dyn', 28), ('dyn', 14), ('all', 14)):
            for i in range(cnt * (1 if tier == 'quick' else self.thorough_mult)):
                js.append({'region': region, 'gseed': seed * 100003 + 60000 + i, 'size': 'quick', 'tix': 4})
        m = 1 if tier == 'quick' else 7
        for i in range(260 * m):
            js.append({'custom': 'sp_synth', 'dseed': seed * 7919 + i})
        for i in range(28 * m):
            js.append({'custom': 'sp_rec', 'dseed': seed * 7919 + i})
        js.append({'custom': 'sp_witness', 'dseed': 0})
        return js

    def extra_corr(self, tr, drv):
        """the tracker calls the ENGINE MODEL says each event makes (TrackerInc.calls_event_step: what the T2 theorems of Inv/TrackerInc.v
        fold the incremental updates over) compared with the calls the real engine makes to its tracker in that event, on stage-1
        configurations; the TrackerInc invariant (tinvc_b) is evaluated on the same real snapshots"""
        import engine_k2, sx
        cfg = tr.cfg
        if not tr.frames:
            return None
        if not engine_k2.in_scope(cfg):
            return self.extra_corr2(tr, drv)
        ecfg = engine_k2.enc_cfg(cfg)
        st = {'events_whose_tracker_calls_were_compared_with_the_model': 0, 'tracker_calls_compared': 0}
        prev = tr.init
        lab = tr.frames[0]['label']
        nxt = 0 if lab[0] == 'arrival' else lab[1]
        now = tr.frames[0]['now']
        if len(getattr(tr, 'run_ends', None) or []) > 1:
            return None
        for k, f in enumerate(tr.frames[:40]):
            if not isinstance(now, int):
                break
            v = drv.ask('m41', sx.dump([ecfg, engine_k2.enc_state(prev, cfg, nxt, now), engine_k2.draws_of(f['cev'])]))
            o = engine_k2.parse(v[1]) if v[0] == 'M' else None
            if not isinstance(o, list) or len(o) != 2:
                return {'stats': st, 'mismatch': {'frame': k + 1, 'what': 'AllRun.run_calls could not read the snapshot', 'got': str(v)[:120]}}
            real = []
            for e in f['cev']:
                if e[0] == 'TrkAcc':
                    real.append([0, e[1], e[2]])
                elif e[0] == 'TrkBlk':
                    real.append([1, e[1], e[2], e[3], e[4]])
                elif e[0] == 'TrkRel':
                    real.append([2, e[1], e[2], e[3], e[4], e[5]])
                elif e[0] == 'TrkChg':
                    real.append([3, e[1], e[2], e[3]])
            if o[0] != 1 or o[1] != real:
                return {'stats': st, 'mismatch': {'frame': k + 1, 'what': 'the tracker calls of the engine model differ from the real engine\'s, or the TrackerInc invariant fails on the real snapshot',
                                                  'invariant': o[0], 'model_calls': o[1][:8], 'real_calls': real[:8], 'label': f['label']}}
            st['events_whose_tracker_calls_were_compared_with_the_model'] += 1
            st['tracker_calls_compared'] += len(real)
            prev, nxt, now = f['snap'], f['next'], f['next_date']
        return {'stats': st}

    def extra_corr2(self, tr, drv):
        """the same on the STAGE-2 engine model (TrackerInc2.calls_event_step, dispatch_model 45): reneging (change_state_renege), jockeying,
        pre-emption with and without reroute, class change while waiting, Schedules, slots; the invariant Idx on the real snapshots; how many
        of them satisfy the hypotheses of the NaiveBlocking theorem is counted"""
        import engine_k2b, sx
        cfg = tr.cfg
        kcfg = {x: y for x, y in cfg.items() if x not in ('tracker', 'hist_new')}
        if not engine_k2b.in_scope(kcfg) or len(getattr(tr, 'run_ends', None) or []) > 1:
            return None
        ecfg = engine_k2b.enc_cfg(kcfg, tr.init)
        st = {'stage2_events_whose_tracker_calls_were_compared_with_the_model': 0, 'stage2_tracker_calls_compared': 0, 'stage2_snapshots_in_the_naive_blocking_scope': 0}
        prev = tr.init
        lab = tr.frames[0]['label']
        nxt = 0 if lab[0] == 'arrival' else lab[1]
        now = tr.frames[0]['now']
        cyc = [[0] * cfg['n'] for _ in range(cfg['k'])]
        for k, f in enumerate(tr.frames[:40]):
            if not isinstance(now, int):
                break
            v = drv.ask('m45', sx.dump([ecfg, engine_k2b.enc_state(prev, kcfg, nxt, now, cyc), engine_k2b.draws_of(f['cev'])]))
            o = engine_k2b.parse(v[1]) if v[0] == 'M' else None
            if not isinstance(o, list) or len(o) != 5:
                return {'stats': st, 'mismatch': {'frame': k + 1, 'what': 'AllRun2.run_calls2 could not read the snapshot', 'got': str(v)[:120]}}
            if o[3] != 1:
                return {'stats': st, 'mismatch': {'frame': k + 1, 'what': 'TrackerInc2b.TInvS (an unblocked customer has previous_class = customer_class) fails on a real snapshot inside scope_nb', 'label': f['label']}}
            st['stage2_snapshots_in_scope_nb_satisfying_TInvS'] = st.get('stage2_snapshots_in_scope_nb_satisfying_TInvS', 0) + o[4]
            real = []
            for e in f['cev']:
                if e[0] == 'TrkAcc':
                    real.append([0, e[1], e[2]])
                elif e[0] == 'TrkBlk':
                    real.append([1, e[1], e[2], e[3], e[4]])
                elif e[0] == 'TrkRel':
                    real.append([2, e[1], e[2], e[3], e[4], e[5]])
                elif e[0] == 'TrkChg':
                    real.append([3, e[1], e[2], e[3]])
            if o[0] != 1 or o[2] != real:
                return {'stats': st, 'mismatch': {'frame': k + 1, 'what': 'the tracker calls of the stage-2 engine model differ from the real engine\'s, or Idx fails on the real snapshot',
                                                  'idx': o[0], 'model_calls': o[2][:8], 'real_calls': real[:8], 'label': f['label']}}
            st['stage2_events_whose_tracker_calls_were_compared_with_the_model'] += 1
            st['stage2_tracker_calls_compared'] += len(real)
            st['stage2_snapshots_in_the_naive_blocking_scope'] += o[1]
            cyc = engine_k2b.cyc_after(cyc, f['cev'], kcfg)
            prev, nxt, now = f['snap'], f['next'], f['next_date']
        return {'stats': st}

    def adjust(self, cfg, job):
        if cfg.get('tracker') is None or 'tix' in job:
            rng = random.Random('c17t/%s/%s' % (cfg.get('gen_seed'), cfg.get('region')))
            cfg['tracker'] = choose_tracker(cfg, job.get('tix', 0), rng)
        cfg['hist_new'] = True
        if cfg.get('run', [''])[0] == 'deadlock':       # simulate_until_deadlock never calls timestamp()
            cfg['run'] = ['time', 120]
            cfg['detector'] = False
        return cfg

    # ------------------------------------------------------------ observed runs
    def project(self, tr):
        frs = used_frames(tr)
        hn = tr.hist_new
        cs = lambda st: canon_state(tr.cfg, st)
        hist_entries = lambda h: [[t, cs(st)] for t, st in h]
        init = [0, cs(tr.init['tracker']), raw_of(tr.init), [], hist_entries(hn.get(0, []))]
        out = []
        for k, f in enumerate(frs):
            out.append([f['now'], cs(f['snap']['tracker']), raw_of(f['snap']), bevs(f['cev']), hist_entries(hn.get(k + 1, []))])
        fin = [hist_entries(tr.hist_full)] if tr.hist_full is not None else []
        return [kind_code(tr.cfg), init, out, fin, 1 if tracker_raised(tr) else 0]

    def nontrivial(self, tr):
        if tr.hist_full is None or len(tr.hist_full) < 10:
            return False
        name = tracker_name(tr.cfg)
        if name in ('NaiveBlocking', 'MatrixBlocking'):
            return any(e[0] == 'Block' for f in tr.frames for e in f['cev'])
        if name == 'NodeClassMatrix':
            return any((e[0] == 'ClassChange' and e[3] != e[4]) or e[0] == 'ClassChangeW' for f in tr.frames for e in f['cev'])
        return True

    def sample(self, tr):
        p = self.project(tr)
        fr = [x for x in p[2] if x[3]] or p[2]
        return {'tracker': tr.cfg['tracker'], 'region': tr.cfg.get('region'), 'gen_seed': tr.cfg.get('gen_seed'), 'frames': len(p[2]),
                'history_entries': len(tr.hist_full or []), 'a_frame': fr[min(3, len(fr) - 1)] if fr else None,
                'history_head': [[t, repr(s)] for t, s in (tr.hist_full or [])[:5]]}

    def stats(self, tr):
        return {'frames_checked': len(used_frames(tr)), 'history_entries': len(tr.hist_full or []),
                'blockings': sum(1 for f in tr.frames for e in f['cev'] if e[0] == 'Block'),
                'unblockings': sum(1 for f in tr.frames for e in f['cev'] if e[0] == 'Release' and e[5]),
                'class_changes': sum(1 for f in tr.frames for e in f['cev']
                                     if (e[0] == 'ClassChange' and e[3] != e[4]) or e[0] == 'ClassChangeW'),
                'runs_' + tracker_name(tr.cfg): 1,
                'matrix_unblock_from_cell_of_2': self.cell2_unblocks(tr)}

    def cell2_unblocks(self, tr):
        """MatrixBlocking: unblockings out of a cell (origin, destination) that held >= 2 customers"""
        if tracker_name(tr.cfg) != 'MatrixBlocking':
            return 0
        n = 0
        prev = tr.init
        for f in tr.frames:
            if any(e[0] == 'Release' and e[5] for e in f['cev']) and any(len(c) >= 2 for row in prev['tracker'][0] for c in row):
                n += 1
            prev = f['snap']
        return n

    def explain(self, tr, v):
        if v[0] != 'R':
            return None
        k = v[1]
        frs = used_frames(tr)
        f = frs[k - 1] if 1 <= k <= len(frs) else None
        s = f['snap'] if f else tr.init
        return {'frame': k, 'label': f['label'] if f else None, 'now': f['now'] if f else 0, 'tracker': tr.cfg['tracker'],
                'tracked': repr(s['tracker']), 'raw': raw_of(s), 'block_events': bevs(f['cev']) if f else [],
                'history_appended': [[t, repr(st)] for t, st in tr.hist_new.get(k, [])],
                'previous_tracked': repr((frs[k - 2]['snap'] if k >= 2 else tr.init)['tracker']) if k >= 1 else None,
                'exc': tr.exc}

    # ------------------------------------------------------------ custom jobs
    def custom_work(self, job, drv):
        kind = job['custom']
        res = {'region': 'state_probabilities-' + kind[3:], 'gseed': job['dseed'], 'hash': '%s%d' % (kind, job['dseed']), 'exc': None,
               'status': 'ok', 'stats': {}}
        cases = []
        tracker = None
        if kind == 'sp_synth':
            rng = random.Random('c17s/%d' % job['dseed'])
            tracker = _fresh_tracker()
            for _ in range(6):
                cases.append(synth_case(rng) + (None,))
        elif kind == 'sp_witness':
            tracker = _fresh_tracker()
            cases = [(h, a, b, exp) for h, a, b, exp in WITNESSES]
        else:
            cases, tracker, recinfo = self.recorded_cases(job)
            res['stats']['recorded_histories'] = 1 if cases else 0
        bad = None
        ncase = 0
        nontriv = 0
        cats = {}
        first = None
        for h, a, b, exp in cases:
            cat, ok, detail = compare_sp(drv, tracker, h, a, b)
            ncase += 1
            cats[cat] = cats.get(cat, 0) + 1
            if first is None:
                first = dict(detail, category=cat)
            if cat == 'in_guard' and sum(1 for t, _ in h if a < t < b) >= 3:
                nontriv += 1
            if exp is not None:
                # the witness of a Coq theorem: the real code must do what the theorem says the faithful model does
                ids = {}
                for _, s in h:
                    ids.setdefault(s, len(ids))
                impl = impl_sp(tracker, h, a, b)
                impl = impl if impl[0] != 'ok' else ['ok', [(ids[s], p) for s, p in impl[1]]]
                if impl == exp:
                    res['stats']['f17b_witnesses_reproduced_on_impl'] = res['stats'].get('f17b_witnesses_reproduced_on_impl', 0) + 1
                else:
                    res['stats']['witnesses_not_reproduced'] = res['stats'].get('witnesses_not_reproduced', 0) + 1
                    if ok and cat != 'impl_exact_where_model_is_not':
                        ok, detail = False, dict(detail, why='witness of a Coq theorem is not reproduced', expected=str(exp))
            if not ok and bad is None:
                bad = (cat, detail)
        if kind == 'sp_witness':
            w = self.live_witness()
            res['stats'].update(w['stats'])
            first = dict(first or {}, live_replay=w['sample'])
            nrep = res['stats'].get('f17b_witnesses_reproduced_on_impl', 0) + w['stats'].get('f17b_live_default_window_differs_from_true_shares', 0)
            if nrep:
                res['known'] = {'F-17b': nrep}      # listed open finding: reported as KNOWN-FINDING while it still reproduces
        for c, n in cats.items():
            res['stats']['sp_' + c] = n
        res['stats']['sp_calls_compared'] = ncase
        res['nframes'] = ncase
        res['nontrivial'] = nontriv > 0
        if bad is None:
            res['verdict'] = ('A', [ncase])
        else:
            res['verdict'] = ('R', 0, 181 if 'time share' in bad[1].get('why', '') else 180, [])
            res['cfg'] = {'state_probabilities_case': bad[1], 'replay_job': {'custom': job['custom'], 'dseed': job['dseed']}}
            res['finding'] = None
            res['detail'] = bad[1]
        if job.get('want_sample') or kind == 'sp_witness':
            res['sample'] = dict(first or {}, kind=kind)
        return res

    def recorded_cases(self, job):
        """history recorded by a real run, timestamps converted exactly to Fractions; windows around its dates"""
        import gen, netbuild
        rng = random.Random('c17r/%d' % job['dseed'])
        region = rng.choice(['core', 'block', 'renege', 'dyn', 'sched', 'all', 'deadlock'])
        cfg = gen.gen(region, job['dseed'], 'quick')
        cfg = self.adjust(cfg, {'tix': job['dseed']})
        cfg['max_frames'] = None
        tr = netbuild.run_cfg(cfg, max_frames=None, keep_sim=True)
        if tr.Q is None or tr.init is None or (tr.exc and tr.exc[0] == 'Inexact'):
            return [], None, None
        tracker = tr.Q.statetracker
        hist = [(F(t), s) for t, s in tracker.history][:400]
        ts = [t for t, _ in hist]
        T = ts[-1]
        cases = []
        for _ in range(8):
            a = rng.choice([F(0), F(0), rng.choice(ts), rng.choice(ts) + F(1, 8), T / 3])
            r = rng.random()
            if r < 0.15:
                b = None
            elif r < 0.3:
                b = rng.choice(ts)
            elif r < 0.6:
                b = T + F(rng.randint(1, 40), 8)
            else:
                b = rng.choice(ts) + F(rng.choice([1, 3, 5]), 8)
            cases.append((hist, a, b, None))
        return cases, tracker, {'region': region, 'entries': len(hist)}

    def live_witness(self):
        """F-17b on a real run: after simulate_until_max_time(T) the default call state_probabilities() does not
        return the time shares over [0, T] (nor over [0, last change]); state_probabilities((0, T)) does."""
        import obs
        ciw = obs.ciw
        N = ciw.create_network(arrival_distributions=[ciw.dists.Sequential([1, 2, 100])],
                               service_distributions=[ciw.dists.Deterministic(0.5)], number_of_servers=[1])
        t = ciw.trackers.SystemPopulation()
        Q = ciw.Simulation(N, tracker=t)
        Q.simulate_until_max_time(10)
        hist = [(F(x), s) for x, s in t.history]
        t.history = [[x, s] for x, s in hist]
        default = t.state_probabilities()
        T = F(10)
        exact = spec_shares(hist, F(0), T)
        windowed = t.state_probabilities(observation_period=(F(0), T))
        last = hist[-1][0]
        upto_last = spec_shares(hist[:-1] + [hist[-1]], F(0), last) if len(hist) > 1 and last > 0 else None
        differs = dict(default) != exact
        return {'stats': {'f17b_live_default_window_differs_from_true_shares': 1 if differs else 0,
                          'live_finite_window_exact': 1 if dict(windowed) == exact else 0},
                'sample': {'history': [[str(x), s] for x, s in hist], 'state_probabilities()': {k: str(v) for k, v in default.items()},
                           'true_shares_over_[0,10]': {k: str(v) for k, v in exact.items()},
                           'state_probabilities((0,10))': {k: str(v) for k, v in windowed.items()}}}

    def extra_coverage(self, results):
        st = {}
        for r in results:
            for k, v in (r.get('stats') or {}).items():
                if k.startswith('sp_') or k.startswith('f17b') or k.startswith('witness') or k.startswith('live') or k.startswith('runs_'):
                    st[k] = st.get(k, 0) + v
        note = ('F-17b (open finding in known_findings.json): outside the guard of state_probabilities_spec -- window end = inf, or a '
                'history timestamp equal to the window end -- the implementation agrees with the faithful Gallina model and NOT with the time '
                'shares (theorems state_probabilities_refuted_*); the witnesses are replayed on the real code in every run')
        return {'state_probabilities': st, 'f17b_note': note}


PROP = C17()

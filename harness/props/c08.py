"""C08 service order: one case per service start."""
from framework import Prop

DISC = {'FIFO': 0, 'LIFO': 1, 'SIRO': 2}


def starts(tr):
    cfg = tr.cfg
    ps = cfg.get('ps') or [False] * cfg['n']
    out, meta = [], []
    for fi, f in enumerate(tr.frames):
        for e in f['cev']:
            if e[0] != 'Start':
                continue
            node = e[1]
            if ps[node - 1]:
                continue
            if e[5] or 'restart_interrupted' in e[6]:
                continue      # restart of an interrupted customer: ordered by C12, not by the discipline
            sites = e[6]
            if 'slot' in sites and any(x[0] == 'Slot' for x in f['cev']):
                # slotted restarts of interrupted customers come first (C12); they carry a service-time marker
                if isinstance(e[7], tuple):
                    continue
            if isinstance(e[7], tuple) and e[7][0] == 's':
                continue      # resume/restart/resample marker: a pre-empted customer being served again
            d = DISC[(cfg.get('disc') or ['FIFO'] * cfg['n'])[node - 1]]
            pm = cfg.get('prio') or [0] * cfg['k']      # the DECLARED mapping class -> priority (not the one read back from the Network)
            out.append([d, e[2], [[[x[0], x[1], x[2] if isinstance(x[2], int) else 0, pm[x[3]] if len(x) > 3 else pi] for x in q] for pi, q in enumerate(e[4])]])
            meta.append((fi, node, e[2]))
    return out, meta


class C08(Prop):
    id = 'C08'
    k2_mask = {('ind', 'prio'), ('ind', 'pprio'), ('ind', 'arr'), ('ind', 'sst'), ('ind', 'server'), ('node', 'queues')}      # the slice of the engine state / records this property reads (DESIGN 7, table of slices)
    k2_frames = 40
    num = 8
    regions = {'quick': [('core', 120), ('block', 80), ('routers', 40), ('renege', 50), ('preempt', 70), ('sched', 50),
                         ('schedpre', 40), ('slotted', 40), ('dyn', 50), ('all', 40)]}
    rule = ('one case = one observed run (every service start in it is checked); non-trivial = some start chose among >= 3 '
            'waiting customers or among >= 2 non-empty priority classes; distinct = distinct configuration hashes')
    clause_text = {55: 'a waiting customer is queued under another priority class than the one declared for its customer class', 50: 'service start with nobody waiting', 51: 'chosen customer is not in the first priority class that has anyone waiting',
                   52: 'FIFO: not the first waiting customer of its class', 53: 'LIFO: not the last waiting customer of its class',
                   54: 'FIFO: waiting line of the class is not in arrival order (an earlier arrival is overtaken)'}

    def project(self, tr):
        return starts(tr)[0]

    def nontrivial(self, tr):
        for s in starts(tr)[0]:
            wc = [sum(1 for c in q if c[1]) for q in s[2]]
            if sum(wc) >= 3 or sum(1 for x in wc if x) >= 2:
                return True
        return False

    def sample(self, tr):
        p = self.project(tr)
        big = sorted(p, key=lambda s: -sum(len(q) for q in s[2]))
        return {'starts': len(p), 'largest_start': big[0] if big else None, 'region': tr.cfg.get('region'),
                'gen_seed': tr.cfg.get('gen_seed')}

    def stats(self, tr):
        return {'starts_checked': len(starts(tr)[0])}

    def explain(self, tr, v):
        if v[0] != 'R':
            return None
        p, meta = starts(tr)
        k = v[1]
        return {'start_index': k, 'frame_node_customer': meta[k] if k < len(meta) else None, 'start': p[k] if k < len(p) else None}


PROP = C08()

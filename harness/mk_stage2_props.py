"""mk_stage2_props.py <pid> <Module> <check-output-file>: writes coq/Properties/<pid>_stage2.v (or appends to it) from the output of
`Check Module.name.` commands: each statement is restated verbatim (the printed form) and closed by `exact Module.name`; a statement
whose printed form does not re-parse is restated through `type of` with a comment pointing at the proof file."""
import re, os, subprocess, sys
pid, mod, chk = sys.argv[1], sys.argv[2], sys.argv[3]
COQ = os.path.join(os.path.dirname(os.path.dirname(os.path.abspath(__file__))), 'coq')
Q = '-Q Base CiwV -Q Sub CiwV.Sub -Q Acc CiwV.Acc -Q Engine CiwV.Engine -Q Inv CiwV.Inv -Q Properties CiwV.Properties'
out = open(chk).read()
entries = re.split(r'\n(?=[A-Z][A-Za-z0-9_]*\.[A-Za-z0-9_\']+\n\s+: )', '\n' + out)
items = []
for e in entries:
    m = re.match(r'([A-Z][A-Za-z0-9_]*)\.([A-Za-z0-9_\']+)\n\s+: (.*)', e.strip('\n'), flags=re.S)
    if m and m.group(1) == mod:
        items.append((m.group(2), m.group(3).strip()))
SUF = os.environ.get('MK_SUFFIX', '_stage2')      # '_engine': statements about the stage-1 engine model
path = os.path.join(COQ, 'Properties', pid + SUF + '.v')
if os.path.exists(path):
    hdr = open(path).read().rstrip('\n') + '\n\n(* ---- %s ---- *)\nFrom CiwV.Inv Require %s.\n' % (mod, mod)
else:
    hdr = ('(* Property %s -- statements about the STAGE-2 engine model (coq/Engine/Engine2.v), statements only; proofs in coq/Inv/%s.v.\n'
           '   The model is tied to /repo by the stepwise correspondence check K2 (harness/engine_k2b.py). *)\n'
           'From Coq Require Import ZArith List Bool Permutation.\nFrom CiwV Require Import Sx Prelude Routing Sched.\n'
           'From CiwV.Engine Require Import State2 Engine2 Codec2.\nFrom CiwV.Inv Require %s.\nImport ListNotations.\nOpen Scope Z_scope.\n' % (pid, mod, mod))
    if SUF == '_engine':
        hdr = ('(* Property %s -- statements about the (stage-1) ENGINE MODEL (coq/Engine/Engine.v), statements only; proofs in coq/Inv/%s.v.\n'
               '   The model is tied to /repo by the stepwise correspondence check K2 (harness/engine_k2.py). *)\n'
               'From Coq Require Import ZArith List Bool Permutation.\nFrom CiwV Require Import Sx Prelude.\n'
               'From CiwV.Engine Require Import State Engine Codec.\nFrom CiwV.Inv Require %s.\nImport ListNotations.\nOpen Scope Z_scope.\n' % (pid, mod, mod))
body = []
taken = set(re.findall(r'^Theorem (\w+)', hdr, flags=re.M))
for name0, ty in items:
    name = name0 if name0 not in taken else '%s_%s' % (name0, mod.lower())      # a statement of the same short name from an earlier file
    taken.add(name)
    ch = 'Theorem %s :\n  %s.\nProof. exact %s.%s. Qed.\nPrint Assumptions %s.' % (name, ty, mod, name0, name)
    open(os.path.join(COQ, 'Properties', '_t.v'), 'w').write(hdr + '\n'.join(body) + '\n' + ch + '\n')
    r = subprocess.run('timeout 900 coqc %s Properties/_t.v' % Q, shell=True, cwd=COQ, capture_output=True, text=True)
    if r.returncode != 0:
        ch = ('(* the printed form of this statement does not re-parse (nat / Z scopes): it is the statement of %s.%s, verbatim in coq/Inv/%s.v *)\n'
              'Theorem %s : ltac:(let t := type of %s.%s in exact t).\nProof. exact %s.%s. Qed.\nPrint Assumptions %s.' % (mod, name0, mod, name, mod, name0, mod, name0, name))
        print('fallback', name)
    body.append(ch + '\n')
open(path, 'w').write(hdr + '\n' + '\n'.join(body))
for e in ('.v', '.vo', '.glob', '.vok', '.vos'):
    try:
        os.remove(os.path.join(COQ, 'Properties', '_t' + e))
    except OSError:
        pass
print(path, len(items), 'statements')

"""obs.py -- behaviour-free observation of a real Ciw run.

Every class below inherits all behaviour from /repo's classes; the wrappers only
log.  A run yields a Trace: the initial snapshot plus one frame per executed
B-event (label, ordered C-events, snapshot after the event).  All times are
converted to integer ticks (SCALE ticks per time unit); a value that is not an
exact multiple raises Inexact and the run is discarded and counted, never
compared.
"""
import sys, os, math, random, traceback
from decimal import Decimal
from fractions import Fraction

REPO = os.environ.get('CIW_REPO', '/repo')
if REPO not in sys.path:
    sys.path.insert(0, REPO)
import ciw
import ciw.arrival_node, ciw.node, ciw.auxiliary

SCALE = 4
INF = float('inf')


class Inexact(Exception):
    pass


def tk(x):
    """time/number -> ticks (int) or a marker."""
    if x is False or x is None:
        return None
    if x is True:
        return 'T'
    if isinstance(x, str):
        return ('s', x)
    if isinstance(x, (Decimal, Fraction)):
        v = x * SCALE
        if v != int(v):
            raise Inexact(repr(x))
        return int(v)
    if isinstance(x, int):
        return x * SCALE
    if isinstance(x, float):
        if math.isinf(x):
            return 'inf' if x > 0 else 'ninf'
        if math.isnan(x):
            return 'nan'
        v = x * SCALE
        if v != int(v):
            raise Inexact(repr(x))
        return int(v)
    raise Inexact('type %r' % type(x))


class _Obs:
    def __init__(self):
        self.reset()

    def reset(self):
        self.cev = []          # C-events of the current frame
        self.stack = []        # active wrapped methods (name, node)
        self.script_u = None   # scripted uniform draws (tie-break enumeration)
        self.unif_count = 0
        self.classes = []
        self.on = True

    def ev(self, *e):
        if self.on:
            self.cev.append(e)


OBS = _Obs()

# ---------------------------------------------------------------- random shim
_orig_random = random.random


def _shim_random():
    if OBS.script_u:
        u = OBS.script_u.pop(0)
    else:
        u = _orig_random()
    OBS.unif_count += 1
    OBS.ev('Unif', u)
    return u


def install_shim():
    random.random = _shim_random
    ciw.arrival_node.random = _shim_random
    ciw.node.random = _shim_random


# ---------------------------------------------------------------- distributions
class Scripted(ciw.dists.Distribution):
    """Deterministic cyclic sequence; logs each draw as a C-event."""

    def __init__(self, vals, kind, node, cls):
        self.vals = list(vals)
        self.i = 0
        self.kind, self.node, self.cls = kind, node, cls

    def sample(self, t=None, ind=None):
        v = self.vals[self.i % len(self.vals)]
        self.i += 1
        OBS.ev('Draw', self.kind, self.node, self.cls, self.i - 1, t, getattr(ind, 'id_number', None), v)
        return v

    def __repr__(self):
        return 'Scripted(%s,%s,%s)' % (self.kind, self.node, self.cls)


def capv(x):
    """capacity / count -> int or 'inf' (never scaled)."""
    if isinstance(x, float) and math.isinf(x):
        return 'inf'
    return int(x)


def cid(c):
    """class name -> index in the sorted class-name list (Ciw's own order)."""
    return OBS.classes.index(c)


def iid(x):
    return getattr(x, 'id_number', None) if x is not False and x is not None and x is not True else None


# ---------------------------------------------------------------- traced classes
class TInd(ciw.Individual):
    def __setattr__(s, k, v):
        if k == 'service_start_date' and v is not False and OBS.on:
            _on_start(s, v)
        elif k == 'service_end_date' and v is not False and OBS.on:
            try:
                OBS.ev('EndSet', s.id_number, tk(v))
            except Inexact:
                OBS.ev('EndSet', s.id_number, None)
        object.__setattr__(s, k, v)


def _queue_ctx(node, chosen=None):
    """per priority class: [(id, waiting?, arrival ticks, customer class index)] in list order."""
    out = []
    for q in node.individuals:
        out.append([(i.id_number, 1 if (((not i.server) and i.service_start_date is False) or i is chosen) else 0,
                     tk(i.arrival_date), cid(i.customer_class)) for i in q])
    return out


def _on_start(ind, v):
    sim = ind.simulation
    try:
        node = sim.nodes[ind.node]
    except Exception:
        return
    site = OBS.stack[-1][0] if OBS.stack else None
    sites = tuple(n for n, _ in OBS.stack)
    OBS.ev('Start', node.id_number, ind.id_number, tk(v), _queue_ctx(node, ind),
           1 if getattr(ind, 'interrupted', False) else 0, sites,
           tk(ind.service_time) if not isinstance(ind.service_time, str) else ('s', ind.service_time),
           sum(1 for x in node.interrupted_individuals if x is not ind), capv(node.c) if node.c != float('inf') else -1)


class TServer(ciw.Server):
    pass


def _srv_ctx(node):
    out = []
    for s in getattr(node, 'servers', []):
        c = s.cust
        if c is False or c is None:
            out.append((s.id_number, None, None, None, None))
        else:
            out.append((s.id_number, c.id_number, c.priority_class, tk(c.service_start_date), 1 if c.is_blocked else 0))
    return out


class TMix:
    """Logging wrappers; mixed in front of ciw.Node / ciw.PSNode."""

    def _w(s, name):
        OBS.stack.append((name, s.id_number))

    def accept(s, ind, *a, **k):
        OBS.ev('Enter', s.id_number, ind.id_number, s.number_of_individuals, capv(s.node_capacity),
               ind.priority_class, tuple(n for n, _ in OBS.stack), cid(ind.customer_class))
        s._w('accept')
        try:
            return super().accept(ind, *a, **k)
        finally:
            OBS.stack.pop()

    def release(s, ind, next_node, *a, **k):
        reroute = k.get('reroute', a[0] if a else False)
        OBS.ev('Release', s.id_number, ind.id_number, next_node.id_number, 1 if reroute else 0,
               1 if ind.is_blocked else 0, iid(ind.server), tk(ind.service_start_date), tk(ind.service_end_date))
        s._w('release')
        try:
            return super().release(ind, next_node, *a, **k)
        finally:
            OBS.stack.pop()
            OBS.ev('ReleaseDone', s.id_number, ind.id_number)

    def block_individual(s, ind, next_node):
        OBS.ev('Block', s.id_number, ind.id_number, next_node.id_number, next_node.number_of_individuals,
               capv(next_node.node_capacity), [tuple(b) for b in next_node.blocked_queue], iid(ind.server))
        s._w('block')
        try:
            return super().block_individual(ind, next_node)
        finally:
            OBS.stack.pop()

    def release_blocked_individual(s):
        OBS.ev('UnblockTry', s.id_number, [tuple(b) for b in s.blocked_queue], s.len_blocked_queue,
               s.number_of_individuals, capv(s.node_capacity))
        s._w('unblock')
        try:
            return super().release_blocked_individual()
        finally:
            OBS.stack.pop()

    def finish_service(s):
        ni = s.next_individual
        OBS.ev('EndService', s.id_number, [iid(i) for i in (ni if isinstance(ni, list) else [ni])])
        s._w('finish_service')
        try:
            return super().finish_service()
        finally:
            OBS.stack.pop()

    def decide_between_simultaneous_individuals(s):
        r = super().decide_between_simultaneous_individuals()
        OBS.ev('Chosen', s.id_number, iid(r), [iid(i) for i in s.next_individual], 1 if r.is_blocked else 0,
               tk(r.service_end_date), tk(getattr(r, 'reneging_date', None)), iid(r.server) if r.server is not True else -1)
        return r

    def _route_ctx(s):
        # engine counters, then the TRUE population and number of started services read off the raw queues
        return [(n.number_of_individuals, n.number_in_service, sum(len(q) for q in n.individuals),
                 sum(1 for q in n.individuals for i in q if i.service_start_date is not False))
                for n in s.simulation.transitive_nodes]

    def next_node(s, ind):
        rb = _route_copy(ind)
        ctx = s._route_ctx()
        r = super().next_node(ind)
        OBS.ev('Route', s.id_number, ind.id_number, cid(ind.customer_class), r.id_number, ctx, rb, _route_copy(ind), 0)
        return r

    def next_node_for_rerouting(s, ind):
        rb = _route_copy(ind)
        ctx = s._route_ctx()
        r = super().next_node_for_rerouting(ind)
        OBS.ev('Route', s.id_number, ind.id_number, cid(ind.customer_class), r.id_number, ctx, rb, _route_copy(ind), 1)
        return r

    def next_node_for_jockeying(s, ind):
        rb = _route_copy(ind)
        ctx = s._route_ctx()
        r = super().next_node_for_jockeying(ind)
        OBS.ev('Route', s.id_number, ind.id_number, cid(ind.customer_class), r.id_number, ctx, rb, _route_copy(ind), 2)
        return r

    def change_customer_class(s, ind):
        b = cid(ind.customer_class)
        r = super().change_customer_class(ind)
        OBS.ev('ClassChange', s.id_number, ind.id_number, b, cid(ind.customer_class), 1 if s.class_change else 0,
               ind.priority_class)
        return r

    def change_customer_class_while_waiting(s):
        ind = s.next_individual
        b = cid(ind.customer_class) if ind is not None else None
        OBS.ev('ClassChangeW', s.id_number, iid(ind), b, cid(ind.next_class) if ind is not None else None)
        s._w('ccw')
        try:
            return super().change_customer_class_while_waiting()
        finally:
            OBS.stack.pop()

    def preempt(s, victim, by):
        OBS.ev('Preempt', s.id_number, victim.id_number, by.id_number, _srv_ctx(s), 1 if victim.is_blocked else 0,
               tk(victim.service_end_date), tk(victim.service_time) if not isinstance(victim.service_time, str) else None,
               victim.priority_class, by.priority_class, tk(victim.service_start_date))
        s._w('preempt')
        try:
            return super().preempt(victim, by)
        finally:
            OBS.stack.pop()

    def renege(s):
        ni = s.next_individual
        OBS.ev('Renege', s.id_number, [iid(i) for i in (ni if isinstance(ni, list) else [ni])])
        s._w('renege')
        try:
            return super().renege()
        finally:
            OBS.stack.pop()

    def change_shift(s):
        OBS.ev('ShiftChange', s.id_number, s.c, tk(s.next_event_date), _sched_pos(s.schedule))
        s._w('change_shift')
        try:
            return super().change_shift()
        finally:
            OBS.stack.pop()
            OBS.ev('ShiftDone', s.id_number, s.c, [x.id_number for x in s.servers],
                   [1 if x.offduty else 0 for x in s.servers])

    def slotted_service(s):
        OBS.ev('Slot', s.id_number, s.schedule.slot_size, s.number_in_service, s.number_of_individuals,
               1 if s.schedule.capacitated else 0, tk(s.schedule.next_slot_date))
        s._w('slot')
        try:
            return super().slotted_service()
        finally:
            OBS.stack.pop()
            OBS.ev('SlotDone', s.id_number, s.number_in_service)

    def interrupt_service(s, ind):
        OBS.ev('Interrupt', s.id_number, ind.id_number, 1 if ind.is_blocked else 0, tk(ind.service_end_date),
               tk(ind.service_start_date))
        s._w('interrupt')
        try:
            return super().interrupt_service(ind)
        finally:
            OBS.stack.pop()

    def kill_server(s, srvr):
        OBS.ev('ServerOff', s.id_number, srvr.id_number, 1 if srvr.busy else 0, tk(srvr.shift_end),
               tk(s.next_event_date), tk(s.simulation.current_time), tk(srvr.start_date))
        r = super().kill_server(srvr)
        # the server's final books, as filed into all_servers_busy / all_servers_total
        OBS.ev('ServerGone', s.id_number, srvr.id_number, tk(srvr.start_date), tk(srvr.busy_time), tk(srvr.total_time), tk(s.now))
        return r

    def add_new_servers(s, n):
        OBS.ev('ServersOn', s.id_number, n, s.highest_id)
        return super().add_new_servers(n)

    def attach_server(s, server, ind):
        OBS.ev('Attach', s.id_number, server.id_number, ind.id_number, 1 if server.busy else 0, iid(ind.server),
               1 if server in s.servers else 0)
        return super().attach_server(server, ind)

    def detatch_server(s, server, ind):
        bt = server.busy_time
        ex, st = ind.exit_date, ind.service_start_date
        r = super().detatch_server(server, ind)
        OBS.ev('Detach', s.id_number, server.id_number, ind.id_number, tk(bt), tk(server.busy_time), tk(ex), tk(st),
               tk(server.total_time), tk(server.start_date))
        return r

    def _rec(s, ind):
        r = ind.data_records[-1]
        OBS.ev('Record', s.id_number, ind.id_number, enc_record(r), len(ind.data_records))

    def write_individual_record(s, ind):
        r = super().write_individual_record(ind)
        s._rec(ind)
        return r

    def write_interruption_record(s, ind, *a, **k):
        r = super().write_interruption_record(ind, *a, **k)
        s._rec(ind)
        return r

    def write_reneging_record(s, ind):
        r = super().write_reneging_record(ind)
        s._rec(ind)
        return r

    def write_baulking_or_rejection_record(s, ind, *a, **k):
        r = super().write_baulking_or_rejection_record(ind, *a, **k)
        s._rec(ind)
        return r

    def get_service_time(s, ind):
        r = super().get_service_time(ind)
        OBS.ev('SvcTime', s.id_number, ind.id_number, cid(ind.customer_class), tk(r))
        return r

    def get_reneging_date(s, ind):
        r = super().get_reneging_date(ind)
        OBS.ev('RenDate', s.id_number, ind.id_number, tk(r))
        return r

    def begin_interrupted_individuals_service(s, srvr):
        ind = s.interrupted_individuals[0] if s.interrupted_individuals else None
        OBS.ev('RestartInterrupted', s.id_number, iid(ind), srvr.id_number,
               [i.id_number for i in s.interrupted_individuals],
               tk(getattr(ind, 'time_left', None)) if ind is not None else None,
               tk(getattr(ind, 'original_service_time', None)) if ind is not None and not isinstance(getattr(ind, 'original_service_time', None), str) else None,
               ind.service_time if ind is not None and isinstance(ind.service_time, str) else None)
        s._w('restart_interrupted')
        try:
            return super().begin_interrupted_individuals_service(srvr)
        finally:
            OBS.stack.pop()

    def begin_service_if_possible_release(s, *a, **k):
        s._w('bsip_release')
        try:
            return super().begin_service_if_possible_release(*a, **k)
        finally:
            OBS.stack.pop()

    def begin_service_if_possible_change_shift(s):
        s._w('bsip_shift')
        try:
            return super().begin_service_if_possible_change_shift()
        finally:
            OBS.stack.pop()

    def begin_service_if_possible_accept(s, *a, **k):
        s._w('bsip_accept')
        try:
            return super().begin_service_if_possible_accept(*a, **k)
        finally:
            OBS.stack.pop()


def _route_copy(ind):
    r = getattr(ind, 'route', None)
    if r is None:
        return None
    return [list(x) if isinstance(x, list) else x for x in r]


class TNode(TMix, ciw.Node):
    pass


class TPSNode(TMix, ciw.PSNode):
    pass


class TArr(ciw.ArrivalNode):
    def have_event(s):
        OBS.ev('ArrEvent', s.next_node, cid(s.next_class) if s.next_class is not None else None, tk(s.next_event_date))
        OBS.stack.append(('arrival', 0))
        try:
            return super().have_event()
        finally:
            OBS.stack.pop()

    def release_individual(s, next_node, ind):
        OBS.ev('Spawn', next_node.id_number, ind.id_number, cid(ind.customer_class), next_node.number_of_individuals,
               capv(next_node.node_capacity), s.simulation.number_of_individuals, capv(s.system_capacity),
               s.number_of_individuals)
        return super().release_individual(next_node, ind)

    def record_rejection(s, next_node, ind):
        OBS.ev('Reject', next_node.id_number, ind.id_number)
        return super().record_rejection(next_node, ind)

    def record_baulk(s, next_node, ind):
        OBS.ev('Baulk', next_node.id_number, ind.id_number)
        return super().record_baulk(next_node, ind)

    def send_individual(s, next_node, ind):
        OBS.ev('Send', next_node.id_number, ind.id_number)
        return super().send_individual(next_node, ind)

    def batch_size(s, nd, clss):
        r = super().batch_size(nd, clss)
        OBS.ev('Batch', nd, cid(clss), r)
        return r

    def inter_arrival(s, nd, clss):
        r = super().inter_arrival(nd, clss)
        OBS.ev('ArrDraw', nd, cid(clss), tk(r))
        return r


class TExit(ciw.ExitNode):
    def accept(s, ind, *a, **k):
        completed = k.get('completed', a[0] if a else True)
        OBS.ev('ExitEnter', ind.id_number, 1 if completed else 0)
        return super().accept(ind, *a, **k)


RTYPES = {'service': 0, 'interrupted service': 1, 'renege': 2, 'baulk': 3, 'rejection': 4}
RFIELDS = ['id_number', 'customer_class', 'original_customer_class', 'node', 'arrival_date', 'waiting_time',
           'service_start_date', 'service_time', 'service_end_date', 'time_blocked', 'exit_date', 'destination',
           'queue_size_at_arrival', 'queue_size_at_departure', 'server_id', 'record_type']


def enc_record(r):
    """record -> dict of encoded fields (times in ticks, classes as indices)."""
    d = {}
    d['id'] = r.id_number
    d['cls'] = cid(r.customer_class)
    d['ocls'] = cid(r.original_customer_class)
    d['node'] = r.node
    for f in ('arrival_date', 'waiting_time', 'service_start_date', 'service_time', 'service_end_date',
              'time_blocked', 'exit_date'):
        d[f] = tk(getattr(r, f))
        if isinstance(d[f], tuple):
            d[f] = 'nan'            # a string where a number belongs (e.g. service_time = 'resume' leaking into a record): not a number
    dst = r.destination
    d['destination'] = None if dst is False else ('nan' if isinstance(dst, float) and math.isnan(dst) else dst)
    for f in ('queue_size_at_arrival', 'queue_size_at_departure', 'server_id'):
        v = getattr(r, f)
        d[f] = None if v is False else ('nan' if isinstance(v, float) and math.isnan(v) else v)
    d['type'] = RTYPES[r.record_type]
    return d


def _sched_pos(sch):
    try:
        return sch.schedule_generator.gi_frame.f_locals.get('index')
    except Exception:
        return None


# ---------------------------------------------------------------- snapshot
IND_ATTRS = ('arrival_date', 'service_start_date', 'service_time', 'service_end_date', 'exit_date',
             'reneging_date', 'class_change_date', 'time_left', 'original_service_time',
             'original_service_start_date', 'date_last_update')


def snap_ind(i):
    d = {'id': i.id_number, 'cls': cid(i.customer_class), 'pcls': cid(i.previous_class), 'ocls': cid(i.original_class),
         'prio': i.priority_class, 'pprio': i.prev_priority_class, 'node': i.node if i.node is not False else None,
         'blocked': 1 if i.is_blocked else 0, 'interrupted': 1 if i.interrupted else 0,
         'dest': i.destination if i.destination is not False else None,
         'nrec': len(i.data_records)}
    sv = i.server
    d['server'] = None if sv is False else (-1 if sv is True else sv.id_number)
    d['qa'] = None if i.queue_size_at_arrival is False else i.queue_size_at_arrival
    for a in IND_ATTRS:
        v = getattr(i, a, None)
        d[a] = tk(v)
    d['with_server'] = None if not hasattr(i, 'with_server') else (1 if i.with_server else 0)
    nc = getattr(i, 'next_class', None)
    d['next_class'] = cid(nc) if nc is not None else None
    r = getattr(i, 'route', None)
    d['route'] = _route_copy(i)
    return d


def snap_server(s):
    return {'id': s.id_number, 'cust': iid(s.cust), 'busy': 1 if s.busy else 0, 'offduty': 1 if s.offduty else 0,
            'start': tk(s.start_date), 'busy_time': tk(s.busy_time), 'total_time': tk(s.total_time),
            'shift_end': tk(s.shift_end), 'next_end': tk(s.next_end_service_date), 'wrapped': tk(getattr(s, 'wrapped_up_busy_time', 0))}


def snap_node(n):
    d = {'id': n.id_number, 'c': capv(n.c), 'cap': capv(n.node_capacity),
         'pop': n.number_of_individuals, 'insvc': n.number_in_service,
         'queues': [[i.id_number for i in q] for q in n.individuals],
         'bq': [tuple(b) for b in n.blocked_queue], 'lenbq': n.len_blocked_queue,
         'interrupted': [i.id_number for i in n.interrupted_individuals], 'nint': n.number_interrupted_individuals,
         'next_date': tk(n.next_event_date), 'next_type': n.next_event_type,
         'overtime': [tk(x) for x in n.overtime],
         'slotted': 1 if n.slotted else 0,
         'all_busy': [tk(x) for x in n.all_servers_busy], 'all_total': [tk(x) for x in n.all_servers_total],
         'next_shift': tk(getattr(n, 'next_shift_change', None)),
         # engine stage 2 (new keys only): highest_id, next_class_change_date / _ind
         'highest_id': capv(n.highest_id) if hasattr(n, 'highest_id') else None,
         'ncc_date': tk(getattr(n, 'next_class_change_date', None)),
         'ncc_ind': iid(getattr(n, 'next_class_change_ind', None)),
         }
    ni = getattr(n, 'next_individual', None)
    d['next_inds'] = [iid(i) for i in ni] if isinstance(ni, list) else ([iid(ni)] if ni is not None else [])
    d['servers'] = [snap_server(s) for s in n.servers] if hasattr(n, 'servers') else None
    if n.schedule is not None:
        sch = n.schedule
        d['sched'] = {'c': sch.c, 'pos': _sched_pos(sch),
                      'next_shift': tk(getattr(sch, 'next_shift_change_date', None)),
                      'next_slot': tk(getattr(sch, 'next_slot_date', None)),
                      'slot_size': getattr(sch, 'slot_size', None)}
    else:
        d['sched'] = None
    if hasattr(n, 'ps_capacity'):
        d['ps'] = {'cap': 'inf' if math.isinf(n.ps_capacity) else n.ps_capacity, 'last_occ': n.last_occupancy}
    else:
        d['ps'] = None
    return d


def snapshot(Q):
    arr = Q.nodes[0]
    ex = Q.nodes[-1]
    s = {'now': tk(Q.current_time),
         'arr': {'created': arr.number_of_individuals, 'accepted': arr.number_accepted_individuals,
                 'dates': {(nd, cid(c)): tk(v) for nd, dd in arr.event_dates_dict.items() for c, v in dd.items()},
                 'next_date': tk(arr.next_event_date), 'next_node': arr.next_node,
                 'next_class': cid(arr.next_class) if arr.next_class is not None else None},
         'nodes': [snap_node(n) for n in Q.transitive_nodes],
         'exit': {'ids': [i.id_number for i in ex.all_individuals], 'n': ex.number_of_individuals,
                  'completed': ex.number_of_completed_individuals},
         'inds': {i.id_number: snap_ind(i) for n in Q.transitive_nodes for q in n.individuals for i in q},
         'tracker': Q.statetracker.hash_state(),
         'hist_len': len(Q.statetracker.history),
         'hist_last': (tk(Q.statetracker.history[-1][0]), Q.statetracker.history[-1][1]),
         'unchecked': 1 if Q.unchecked_blockage else 0,
         }
    dd = Q.deadlock_detector
    if hasattr(dd, 'statedigraph'):
        s['digraph'] = sorted(dd.statedigraph.edges())
        s['digraph_nodes'] = sorted(dd.statedigraph.nodes())
        s['dd'] = 1 if dd.detect_deadlock() else 0
    return s


# ---------------------------------------------------------------- simulation subclass
class StopRun(Exception):
    pass


class TSim(ciw.Simulation):
    """Inherits the three loops; records one frame per executed B-event."""

    def event_and_return_nextnode(self, next_active_node):
        tr = self._trace
        if tr.hist_mark is not None:
            hist_collect(self, tr)      # entries appended by timestamp() after the previous frame (C17)
        nd = next_active_node
        if nd is self.nodes[0]:
            label = ('arrival', 0, nd.next_node, cid(nd.next_class) if nd.next_class is not None else None,
                     tk(nd.next_event_date))
        else:
            ni = getattr(nd, 'next_individual', None)
            ids = [iid(i) for i in ni] if isinstance(ni, list) else ([iid(ni)] if ni is not None else [])
            label = (nd.next_event_type, nd.id_number, ids, None, tk(nd.next_event_date))
        OBS.cev = []
        now = tk(self.current_time)
        try:
            r = super().event_and_return_nextnode(next_active_node)
        except Exception:
            tr.partial = {'label': label, 'now': now, 'cev': OBS.cev}
            raise
        cev = OBS.cev
        OBS.cev = []
        tr.frames.append({'label': label, 'now': now, 'cev': cev, 'snap': snapshot(self),
                          'next': 0 if r is self.nodes[0] else r.id_number, 'next_date': tk(r.next_event_date)})
        if tr.max_frames is not None and len(tr.frames) >= tr.max_frames:
            raise StopRun()
        return r


class Trace:
    def __init__(self):
        self.frames = []
        self.init = None
        self.exc = None
        self.partial = None
        self.max_frames = None
        self.cfg = None
        self.Q = None
        self.stopped = False
        self.init_cev = []
        self.hist_mark = None      # C17 (optional, cfg['hist_new']): length of the tracker history already attributed
        self.hist_new = {}         # frame number (0 = initialisation) -> history entries appended after that frame
        self.hist_full = None      # the whole history at the end of the run


def hist_collect(Q, tr):
    """attribute the tracker-history entries appended since the last call to the last completed frame
    (optional, switched on by cfg['hist_new']; used by C17)."""
    h = Q.statetracker.history
    new = [(tk(e[0]), e[1]) for e in h[tr.hist_mark:]]
    tr.hist_mark = len(h)
    k = len(tr.frames)
    tr.hist_new[k] = tr.hist_new.get(k, []) + new


def repo_site(e):
    """(exception type, innermost /repo function)."""
    site = None
    for fr in traceback.extract_tb(e.__traceback__):
        if fr.filename.startswith(REPO):
            site = '%s:%s' % (os.path.basename(fr.filename), fr.name)
    return (type(e).__name__, site, str(e)[:120])

"""mutation_matrix.py [--all] [--only Cxx_A ...]: applies every seeded change (in a scratch worktree of /repo, or with --in-place in /repo
itself, reverting afterwards) and runs the quick check of the property it was written against (and with --all every registered check).
Writes seeded/MATRIX.json and seeded/MATRIX.md."""
import os, sys, json, subprocess, re, time, tempfile
VERIF = os.path.dirname(os.path.dirname(os.path.abspath(__file__)))
SEEDED = os.path.join(VERIF, 'seeded')


def sh(cmd, **kw):
    return subprocess.run(cmd, shell=True, capture_output=True, text=True, **kw)


def main():
    args = sys.argv[1:]
    allchecks = '--all' in args
    only = [a for a in args if not a.startswith('--')]
    checks = [c['property_id'] for c in json.load(open(os.path.join(VERIF, 'MANIFEST.json')))['checks']]
    out_path = os.path.join(SEEDED, 'MATRIX.json')
    matrix = json.load(open(out_path)) if os.path.exists(out_path) else {}
    names = [n for n in sorted(os.listdir(SEEDED)) if not n.startswith('_')] + \
            ['_harmless/' + n for n in sorted(os.listdir(os.path.join(SEEDED, '_harmless')))] if os.path.isdir(os.path.join(SEEDED, '_harmless')) else sorted(os.listdir(SEEDED))
    for name in names:
        d = os.path.join(SEEDED, name)
        if not os.path.isdir(d) or not os.path.exists(os.path.join(d, 'patch.diff')):
            continue
        if only and name not in only:
            continue
        pid = os.path.basename(name).split('_')[0]
        todo = checks if allchecks else [pid]
        wt = tempfile.mkdtemp(prefix='mm_', dir='/tmp')
        os.rmdir(wt)
        r = sh('git -C /repo worktree add --detach %s HEAD -q && git -C %s apply %s/patch.diff' % (wt, wt, d))
        if r.returncode != 0:
            matrix.setdefault(name, {})['error'] = 'patch does not apply: ' + r.stderr[-200:]
            sh('git -C /repo worktree remove --force %s' % wt)
            continue
        row = matrix.setdefault(name, {})
        row.pop('error', None)
        for c in todo:
            t0 = time.time()
            env = dict(os.environ, CIW_REPO=wt, PYTHONPATH=wt, VERIF_EVIDENCE_DIR=os.path.join(wt, '_evidence'))
            p = sh('./check %s --tier quick' % c, cwd=VERIF, env=env)
            viol = [l for l in p.stdout.split('\n') if l.startswith('VIOLATION')]
            row[c] = {'rc': p.returncode, 'violation_lines': len(viol), 'no_failing_input_found': any('no-failing-input-found' in l for l in viol),
                      'with_failing_input': sum(1 for l in viol if 'no-failing-input-found' not in l),
                      'summary': p.stdout.strip().split('\n')[-1][-160:], 'wall_s': round(time.time() - t0, 1)}
            print(name, c, 'rc=%d' % p.returncode, row[c]['summary'], flush=True)
        sh('git -C /repo worktree remove --force %s; git -C /repo worktree prune' % wt)
        json.dump(matrix, open(out_path, 'w'), indent=1, sort_keys=True)
    # markdown
    lines = ['| seeded change | breaks | caught by its own check | other checks that raise an alarm |', '|---|---|---|---|']
    for name in sorted(matrix):
        row = matrix[name]
        pid = os.path.basename(name).split('_')[0]
        if name.startswith('_harmless/'):
            alarms = sorted(c for c, v in row.items() if isinstance(v, dict) and v.get('rc') != 0 and v.get('with_failing_input', v.get('violation_lines', 1)) > 0)
            corr = sorted(c for c, v in row.items() if isinstance(v, dict) and v.get('rc') != 0 and c not in alarms)
            own = row.get(pid) or {}
            verdict = 'FALSE ALARM' if alarms else ('no alarm' if not corr else 'correspondence with the engine model broken, no failing input found (reported as such)')
            lines.append('| %s (harmless on the current tree) | - | %s | %s |' % (name, verdict, ', '.join(alarms + corr) or '-'))
            continue
        own = row.get(pid)
        others = sorted(c for c, v in row.items() if isinstance(v, dict) and c != pid and v.get('rc') == 1)
        lines.append('| %s | %s | %s | %s |' % (name, pid, ('yes' if own and own['rc'] == 1 else ('NO' if own else '-')), ', '.join(others) or '-'))
    open(os.path.join(SEEDED, 'MATRIX.md'), 'w').write('\n'.join(lines) + '\n')


if __name__ == '__main__':
    main()

"""Regenerates MANIFEST.json from the table below (run after adding a check)."""
import json, os
VERIF = os.path.dirname(os.path.dirname(os.path.abspath(__file__)))
BASE = json.load(open('/root/.vp/BASELINE.json'))['cmd']

CHECKS = {}   # filled by manifest_table.py
exec(open(os.path.join(VERIF, 'harness', 'manifest_table.py')).read())

ALL = ['C%02d' % i for i in range(1, 21)]
m = {
    'version': 1,
    'setup_cmd': 'cd coq && coq_makefile -f _CoqProject -o Makefile && make -j16 && cd .. && ./ocaml/build.sh',
    'hooks': {'guard': 'CIW_VERIF', 'enable': 'none needed: observation uses behaviour-free subclasses passed through Simulation\'s public class parameters; checks import ciw from /repo (PYTHONPATH=/repo)',
              'baseline_off_cmd': BASE.replace(' --junitxml=<file>', ''), 'source_commits': SOURCE_COMMITS, 'add_only': True},
    'engines': [{'name': 'coq-acceptors', 'path': 'coq/', 'serves_properties': sorted(CHECKS), 'kind_free_text': 'Coq 8.16 development: models, acceptors, theorems; extracted to OCaml (build/driver) and run on traces of the real implementation'}],
    'checks': [],
    'notes': NOTES,
    'not_applicable': [{'property_id': p, 'reason': NA.get(p, 'check not built yet (work in progress); no claim made')} for p in ALL if p not in CHECKS],
}
for pid in sorted(CHECKS):
    c = CHECKS[pid]
    m['checks'].append({
        'property_id': pid,
        'quick_cmd': './check %s --tier quick' % pid,
        'thorough_cmd': './check %s --tier thorough' % pid,
        'evidence_file': 'evidence/%s.json' % pid,
        'replay_cmd_template': './check %s --replay {path}' % pid,
        'engine': 'coq-acceptors',
        'level_claimed': {'category': 'proof', 'text': c['text'], 'design_ref': c.get('ref', 'DESIGN.md section 7')},
        'level_note': c['note'],
        'technique': c['technique'],
    })
json.dump(m, open(os.path.join(VERIF, 'MANIFEST.json'), 'w'), indent=1)
print('MANIFEST.json written:', len(m['checks']), 'checks,', len(m['not_applicable']), 'not claimed')

"""gen.py -- generator of configurations, parameterised by a feature region.
Every random choice comes from one random.Random(seed) so a case replays from
(region, seed)."""
import random

GRID = [1, 2, 3, 4, 6, 8]          # ticks (quarters of a time unit): tie-rich
BIG = [5, 7, 9, 11, 13, 17, 19, 23]


def _vals(rng, lo=1, hi=5, grid=GRID, zero=0.0):
    m = rng.randint(lo, hi)
    v = [rng.choice(grid) for _ in range(m)]
    if zero and rng.random() < zero:
        v[rng.randrange(m)] = 0
    return v


def _row(rng, n, exit_ok=True):
    """routing row in eighths, biased to few non-zero entries; sum <= 8."""
    r = [0] * n
    left = 8
    for _ in range(rng.choice([1, 1, 2, 2, 3])):
        j = rng.randrange(n)
        p = rng.choice([1, 2, 2, 4, 4, 8])
        p = min(p, left)
        r[j] += p
        left -= p
    if not exit_ok and left > 0:
        r[rng.randrange(n)] += left
    return r


def _ccm(rng, k):
    m = []
    for a in range(k):
        row = [0] * k
        left = 8
        while left > 0:
            b = rng.randrange(k)
            p = min(rng.choice([2, 4, 8]), left)
            row[b] += p
            left -= p
        m.append(row)
    return m


REGIONS = {
    # name: feature switches
    'core': dict(),
    'block': dict(block=1.0),
    'routers': dict(routers=1.0),
    'renege': dict(renege=1.0),
    'preempt': dict(prio=1.0, preempt=1.0, noblock=True),
    'renege_preempt': dict(renege=1.0, prio=1.0, preempt=1.0, noblock=True, multiclass=True),
    'prio_reroute': dict(prio=1.0, preempt=1.0, reroute=True, multiclass=True),
    'sched_reroute': dict(sched=1.0, schedpre=1.0, reroute=True),
    'preempt_block': dict(prio=1.0, preempt=1.0, block=0.7),
    'sched': dict(sched=1.0, noblock=True),
    'sched_block': dict(sched=1.0, block=0.8),
    'schedpre': dict(sched=1.0, schedpre=1.0, noblock=True),
    'schedpre_block': dict(sched=1.0, schedpre=1.0, block=0.8),
    'slotted': dict(slotted=1.0, noblock=True),
    'dyn': dict(dyn=1.0, multiclass=True),
    'renege_dyn': dict(renege=1.0, dyn=1.0, multiclass=True),     # reneging x class change while waiting (C17)
    'ps': dict(ps=1.0, noblock=True),
    'deadlock': dict(block=1.0, deadlock=True),
    'renege_schedpre': dict(renege=1.0, sched=1.0, schedpre=1.0, noblock=True),
    'slotted_pre': dict(slotted=1.0, noblock=True, slotpre=True),
    'renege_jockey': dict(renege=1.0, routers=1.0, jockey=True, block=0.6),
    'preempt_deep': dict(prio=1.0, preempt=1.0, noblock=True, deep=True),
    'jsq_preempt': dict(routers=1.0, jsq=True, prio=1.0, preempt=1.0, noblock=True, multiclass=True),
    'jsq_sched': dict(routers=1.0, jsq=True, sched=1.0, noblock=True),     # join-shortest-queue towards nodes with (non-pre-emptive) Schedules
    'sched_split': dict(sched=1.0, noblock=True, split=True),      # the run is made in several calls (pauses inside services / overtime)
    'core_split': dict(split=True),
    # a pre-emptive Schedule (with zero-server shifts) feeding a small finite node: blocked customers meet shift changes
    'schedpre_tandem': dict(sched=1.0, schedpre=1.0, block=1.0, tandem=True),
    'sched_tandem': dict(sched=1.0, block=1.0, tandem=True, tandem_nonpre=True),      # the same with non-pre-emptive one-server shifts (overtime servers + blocking)
    'sched_dyn': dict(sched=1.0, dyn=1.0, multiclass=True, noblock=True),   # class change while waiting at nodes with (non-pre-emptive) Schedules
    'batch_mix': dict(mix=True, batchy=True),                      # batch arrivals under max_time / max_customers / max_time
    'core_mix': dict(mix=True),                                    # one run = max_time, then max_customers, then max_time again
    'block_mix': dict(block=1.0, mix=True),
    'dyn_reroute': dict(dyn=1.0, prio=1.0, preempt=1.0, reroute=True, reroute_all=True, multiclass=True, noblock=True),   # class change while waiting that pre-empts and reroutes
    # one multi-server node fanning out to two single-server nodes without waiting room: several customers blocked at once, towards
    # different destinations that free up in a different order than they filled
    'fanout_block': dict(block=1.0, fanout=True),
    'dyn_preempt': dict(dyn=1.0, prio=1.0, preempt=1.0, multiclass=True, noblock=True),   # class change while waiting that pre-empts (resume / restart / resample)
    'spf': dict(spf=1.0),                                          # server priority functions (which free server is taken)
    'spf_sched': dict(spf=1.0, sched=1.0, noblock=True),
    'spf_block': dict(spf=1.0, block=0.8),
    # C18: is a reported deadlock genuine when waiting customers can renege / when a Schedule brings new servers?
    'deadlock_renege': dict(block=1.0, deadlock=True, renege=1.0),
    'deadlock_sched': dict(block=1.0, deadlock=True, sched=1.0),
    'deadlock_dynpre': dict(block=1.0, deadlock=True, dyn=1.0, prio=1.0, preempt=1.0, multiclass=True),   # class change while waiting that pre-empts at full nodes
    'all': dict(prio=0.4, preempt=0.3, sched=0.3, schedpre=0.3, slotted=0.15, renege=0.3, dyn=0.2, routers=0.3,
                block=0.4),
}


def gen(region, seed, size='quick'):
    rng = random.Random((hash(region) & 0xffff) * 1000003 + seed) if False else random.Random('%s/%d' % (region, seed))
    f = dict(REGIONS[region])
    big = size != 'quick'
    n = rng.choice([1, 2, 2, 3] + ([4, 5] if big else []))
    k = rng.choice([1, 1, 2, 2, 3])
    if f.get('multiclass') and k == 1:
        k = 2
    if f.get('deep'):
        k = 3
        n = rng.choice([1, 1, 2])
    if f.get('deadlock'):
        n = rng.choice([1, 2, 2, 3])
    if f.get('reroute_all') and n == 1:
        n = 2
    cfg = {'n': n, 'k': k, 'region': region, 'gen_seed': seed, 'seed': rng.randrange(1 << 30)}
    P = lambda key, d=0.0: rng.random() < f.get(key, d)
    zero = 0.15
    # arrivals / services
    cfg['arr'] = [[(_vals(rng, zero=zero) if rng.random() < 0.7 else None) for _ in range(n)] for _ in range(k)]
    if all(a is None for row in cfg['arr'] for a in row):
        cfg['arr'][0][0] = _vals(rng)
    for row in cfg['arr']:
        for a in row:
            if a is not None and sum(a) == 0:
                a[0] = 2        # no Zeno stream
    cfg['svc'] = [[_vals(rng, zero=zero) for _ in range(n)] for _ in range(k)]
    if f.get('slotpre'):
        cfg['svc'] = [[_vals(rng, 1, 4, grid=[8, 12, 16, 24, 32]) for _ in range(n)] for _ in range(k)]
        cfg['arr'] = [[_vals(rng, 1, 4, grid=[1, 2, 3, 4]) for _ in range(n)] for _ in range(k)]
    if f.get('deep'):
        cfg['svc'] = [[_vals(rng, 1, 4, grid=[6, 8, 12, 16, 20]) for _ in range(n)] for _ in range(k)]
        cfg['arr'] = [[_vals(rng, 1, 4, grid=[3, 4, 6, 8, 12]) for _ in range(n)] for _ in range(k)]
    # servers
    blockp = f.get('block', 0.35)
    noblock = f.get('noblock', False)
    servers = []
    for j in range(n):
        if P('slotted') and (not servers or rng.random() < 0.5):
            m = rng.randint(1, 3)
            slots = sorted(rng.sample([2, 4, 6, 8, 12, 16, 20, 24], m))
            capd = rng.random() < 0.5
            sizes = [rng.choice([1, 2, 3]) for _ in range(m)]
            pre_ = (rng.choice([False, 'resume', 'restart', 'resample']) if capd else False)
            if f.get('slotpre'):
                capd = True
                pre_ = rng.choice(['resume', 'restart', 'resample'])
                m = 3
                slots = sorted(rng.sample([2, 4, 6, 8, 12, 16], m))
                sizes = rng.choice([[3, 2, 1], [3, 1, 2], [2, 1, 3], [3, 2, 1], [2, 2, 1]])
            servers.append({'kind': 'slotted', 'slots': slots, 'sizes': sizes,
                            'cap': capd, 'pre': pre_,
                            'offset': rng.choice([0, 0, 2, 4])})
        elif P('sched') and (rng.random() < 0.7):
            m = rng.randint(1, 4)
            ends = sorted(rng.sample([4, 8, 12, 16, 20, 28, 40], m))
            pre = False
            if P('schedpre'):
                pre = rng.choice(['resume', 'restart', 'resample'] + (['reroute'] if f.get('reroute') else []))
            servers.append({'kind': 'sched', 'c': [rng.choice([0, 1, 1, 2, 3]) for _ in range(m)], 'ends': ends,
                            'pre': pre, 'offset': rng.choice([0, 0, 0, 2, 6])})
        else:
            if f.get('deep'):
                servers.append(rng.choice([1, 1, 2]))
            elif f.get('deadlock'):
                servers.append(rng.choice([1, 1, 2, 3]))
            else:
                servers.append(rng.choice([1, 1, 2, 3, 'inf'] + ([0] if rng.random() < 0.1 else [])))
    if f.get('reroute_all'):
        # pre-emption happens at the small nodes, the rerouted victims find a free server at the last one
        servers = [1] * (n - 1) + [rng.choice(['inf', 3])]
    cfg['servers'] = servers
    if noblock:
        cfg['qcap'] = None
    elif rng.random() < blockp or f.get('deadlock'):
        cfg['qcap'] = [rng.choice([0, 0, 1, 2, 'inf'] if not f.get('deadlock') else [0, 0, 1, 2]) for _ in range(n)]
    else:
        cfg['qcap'] = None
    cfg['syscap'] = rng.choice([1, 2, 3, 5, 8]) if (rng.random() < 0.25 and not noblock and not f.get('deadlock')) else 'inf'
    # routing
    def tm():
        rows = [_row(rng, n, exit_ok=not (f.get('deadlock') and rng.random() < 0.6)) for _ in range(n)]
        return {'kind': 'tm', 'rows': rows}
    def node_router():
        kind = rng.choice(['direct', 'leave', 'prob', 'jsq', 'lb', 'cycle'] if not f.get('jsq') else ['jsq', 'jsq', 'jsq', 'lb', 'prob'])
        if f.get('jockey'):
            kind = rng.choice(['jockey', 'jockey', 'direct', 'prob'])
        if kind == 'jockey':
            return {'kind': 'jockey', 'to': rng.choice(list(range(1, n + 1)) + [-1, -1]), 'jock': rng.choice(list(range(1, n + 1)) + [-1])}
        dests = sorted(rng.sample(range(1, n + 1), rng.randint(1, n)))
        if kind == 'direct':
            return {'kind': 'direct', 'to': rng.choice(list(range(1, n + 1)) + [-1])}
        if kind == 'leave':
            return {'kind': 'leave'}
        if kind == 'prob':
            probs = []
            left = 8
            for _ in dests:
                p = min(rng.choice([0, 1, 2, 4]), left)
                probs.append(p)
                left -= p
            return {'kind': 'prob', 'dests': dests, 'probs': probs}
        if kind in ('jsq', 'lb'):
            return {'kind': kind, 'dests': dests, 'tie': rng.choice(['random', 'order'])}
        return {'kind': 'cycle', 'cycle': [rng.choice(list(range(1, n + 1)) + [-1]) for _ in range(rng.randint(1, 3))]}
    routing = []
    for c in range(k):
        if P('routers'):
            r = rng.random() if not (f.get('jsq') or f.get('jockey')) else 0.0
            if r < 0.5:
                routing.append({'kind': 'nr', 'routers': [node_router() for _ in range(n)]})
            elif r < 0.75:
                routes = [[rng.randint(1, n) for _ in range(rng.randint(0, 3))] for _ in range(rng.randint(1, 3))]
                routing.append({'kind': 'pb', 'routes': routes})
            else:
                routes = [[sorted(rng.sample(range(1, n + 1), rng.randint(1, n))) for _ in range(rng.randint(0, 3))]
                          for _ in range(rng.randint(1, 3))]
                routing.append({'kind': 'fpb', 'routes': routes, 'rule': rng.choice(['any', 'all']),
                                'choice': rng.choice(['random', 'jsq', 'lb'])})
        else:
            routing.append(tm())
    cfg['routing'] = routing
    cfg['_fixroute'] = True
    # process-based routing: arrivals must be at the first node of the route; keep arrivals anywhere (Ciw allows it)
    # priorities
    if k > 1 and (P('prio', 0.5)):
        m = rng.choice([2, min(k, 3)])
        pr = [rng.randrange(m) for _ in range(k)]
        vals = sorted(set(pr))
        cfg['prio'] = [vals.index(p) for p in pr]
        cfg['prio_rev'] = rng.random() < 0.5
        if f.get('deep'):
            pr = [0, 1, 2]
            rng.shuffle(pr)
            cfg['prio'] = pr
        if P('preempt'):
            opts = ['resume', 'restart', 'resample'] + (['reroute'] if f.get('reroute') else [])
            cfg['preempt'] = [rng.choice(opts + [False]) for _ in range(n)]
            if f.get('deep'):
                cfg['preempt'] = [rng.choice(['restart', 'restart', 'resume', 'resample']) for _ in range(n)]
    if f.get('reroute_all') and cfg.get('prio') is not None:
        cfg['preempt'] = ['reroute'] * n
    cfg['disc'] = [rng.choice(['FIFO', 'FIFO', 'LIFO', 'SIRO']) for _ in range(n)] if rng.random() < 0.4 else None
    if (rng.random() < 0.3) or f.get('batchy'):
        cfg['batch'] = [[([rng.choice([0, 1, 1, 2, 3]) for _ in range(rng.randint(1, 3))] if cfg['arr'][c][j] is not None else None)
                         for j in range(n)] for c in range(k)]
    if k > 1 and rng.random() < 0.35 and not f.get('dyn'):
        cfg['ccm'] = [_ccm(rng, k) for _ in range(n)]
        cfg['ccm_rev'] = rng.random() < 0.5
    if rng.random() < 0.25:
        cfg['baulk'] = [[([rng.choice([0, 0, 1, 2, 4]) for _ in range(rng.randint(1, 4))] if rng.random() < 0.6 else None)
                         for _ in range(n)] for _ in range(k)]
    if P('renege'):
        cfg['ren'] = [[(_vals(rng, 1, 4, grid=[1, 2, 3, 4, 6, 8, 12]) if rng.random() < 0.7 else None) for _ in range(n)]
                      for _ in range(k)]
        if all(x is None for row in cfg['ren'] for x in row):
            cfg['ren'][0][0] = _vals(rng, 1, 3)
    if P('dyn') and k > 1:
        cfg['cct'] = [[(None if a == b or rng.random() < 0.4 else _vals(rng, 1, 3, grid=[1, 2, 3, 5, 8, 12]))
                       for b in range(k)] for a in range(k)]
        if all(x is None for row in cfg['cct'] for x in row):
            cfg['cct'][0][1] = _vals(rng, 1, 3)
    if (cfg.get('ccm') is not None or cfg.get('cct') is not None) and any(r['kind'] in ('pb', 'fpb') for r in routing):
        # a customer that changes class is handed to the new class's router: route lists must be compatible
        for c in range(1, k):
            routing[c] = routing[0]
    cfg.pop('_fixroute', None)
    if P('ps'):
        cfg['ps'] = [(rng.random() < 0.7) and not isinstance(servers[j], dict) for j in range(n)]
        if not any(cfg['ps']):
            cfg['ps'][0] = True
            if isinstance(servers[0], dict):
                servers[0] = rng.choice([1, 2, 'inf'])
        cfg['ps_thr'] = [rng.choice([1, 1, 2, 3]) for _ in range(n)]
    if f.get('deadlock'):
        cfg['detector'] = True
        cfg['tracker'] = rng.choice(['NaiveBlocking', 'NodePopulation', 'SystemPopulation', 'MatrixBlocking'])
        cfg['run'] = ['deadlock']
        cfg['max_frames'] = 400
    else:
        T = rng.choice([40, 80, 120, 200] if not big else [120, 200, 400, 800])
        cfg['run'] = ['time', T]
        cfg['max_frames'] = 600 if not big else 1500
    if f.get('fanout'):
        n = cfg['n'] = 3
        k = cfg['k']
        cfg['servers'] = [rng.choice([3, 3, 4]), 1, 1]
        cfg['qcap'] = ['inf', 0, rng.choice([0, 0, 1])]
        cfg['syscap'] = 'inf'
        cfg['arr'] = [[_vals(rng, 1, 3, grid=[1, 2, 3]), None, None] for _ in range(k)]
        cfg['svc'] = [[_vals(rng, 1, 3, grid=[1, 2, 3]), _vals(rng, 1, 3, grid=[8, 12, 16, 20]), _vals(rng, 1, 3, grid=[3, 4, 5, 6])] for _ in range(k)]
        cfg['routing'] = [{'kind': 'tm', 'rows': [[0, 4, 4], [0, 0, 0], [0, 0, 0]]} for _ in range(k)]
        for key in ('ccm', 'batch', 'baulk', 'ren', 'cct', 'ps', 'ps_thr', 'preempt', 'spf'):
            if key in cfg:
                cfg[key] = None
        if cfg.get('disc') is not None:
            cfg['disc'] = (cfg['disc'] + ['FIFO'] * 3)[:3]
    if f.get('tandem'):
        n = cfg['n'] = 2
        m = rng.randint(2, 4)
        ends = sorted(rng.sample([3, 4, 6, 8, 10, 12, 16, 20, 28, 40], m))
        cs = [rng.choice([0, 1, 1, 2]) for _ in range(m)]
        cs[rng.randrange(m)] = 0
        if all(c == 0 for c in cs):
            cs[0] = rng.choice([1, 2])
        pre_t = rng.choice(['resume', 'restart', 'resample'])
        if f.get('tandem_nonpre'):
            # NON-pre-emptive shifts of one server: busy servers go into overtime next to their successor, customers blocked from either
            pre_t = False
            cs = [1] * m
        cfg['servers'] = [{'kind': 'sched', 'c': cs, 'ends': ends, 'pre': pre_t, 'offset': rng.choice([0, 0, 2])},
                          rng.choice([1, 1, 2])]
        cfg['qcap'] = [rng.choice(['inf', 3, 5]), rng.choice([0, 0, 1])]
        cfg['syscap'] = 'inf'
        k = cfg['k']
        cfg['arr'] = [[_vals(rng, 1, 3, grid=[1, 2, 3, 4]), None] for _ in range(k)]
        cfg['svc'] = [[_vals(rng, 1, 3, grid=[1, 2, 3, 4, 6]), _vals(rng, 1, 3, grid=[2, 3, 4, 6, 8, 12])] for _ in range(k)]
        cfg['routing'] = [{'kind': 'tm', 'rows': [[0, rng.choice([8, 8, 6])], [0, 0]]} for _ in range(k)]
        for key in ('ccm', 'batch', 'baulk', 'ren', 'cct', 'ps', 'ps_thr', 'preempt', 'disc'):
            if key in cfg and key not in ('disc',):
                cfg[key] = None
        if cfg.get('disc') is not None:
            cfg['disc'] = cfg['disc'][:2] + ['FIFO'] * (2 - len(cfg['disc'][:2]))
        if cfg.get('spf') is not None:
            cfg['spf'] = None
    if f.get('split') and cfg['run'][0] == 'time':
        T = cfg['run'][1]
        cuts = sorted(set(rng.choice([x for x in (3, 5, 7, 9, 11, 14, 18, 22, 27, 33, 45, 60) if x < T]) for _ in range(rng.randint(1, 4))))
        cfg['run'] = [['time', c] for c in cuts] + [['time', T]]
    if f.get('mix') and cfg['run'][0] == 'time':
        t1 = rng.choice([7, 20, 40])
        cfg['run'] = [['time', t1], ['cust', rng.choice([2, 5, 9, 14]), rng.choice(['Finish', 'Arrive', 'Accept', 'Complete'])],
                      ['time', t1 + rng.choice([10, 30, 60, 100])]]
    if f.get('jockey') and rng.random() < 0.3:
        # drawn last: a STATEFUL jockeying router (round robin) in a third of the jockeying configurations
        for r in cfg['routing']:
            if r.get('kind') == 'nr':
                for x in r['routers']:
                    if x.get('kind') == 'jockey':
                        x['kind'] = 'jockey_alt'
                        x['jocks'] = [x.pop('jock'), rng.choice(list(range(1, n + 1)) + [-1])]
    if 'spf' in f:          # drawn last so that the other regions' configurations are unchanged
        cfg['spf'] = [(rng.choice(['hi', 'idle', 'cls', 'hi', None]) if (isinstance(servers[j], dict) or (isinstance(servers[j], int) and servers[j] >= 1)) else None)
                      for j in range(n)]
        if all(x is None for x in cfg['spf']):
            cfg['spf'] = None
    return cfg

"""k2b_sweep.py -- runs N generated configurations per feature region through the stage-2 stepwise correspondence check
(engine_k2b.check_trace) and prints totals per region + the first mismatch.

usage:  PYTHONHASHSEED=0 PYTHONPATH=/repo /venv/bin/python harness/k2b_sweep.py [-n N] [-s SEED0] [-f FRAMES] [--size quick|thorough] region ...
        (K2B_DRIVER=/path/to/driver overrides the driver binary)"""
import sys, os, json, collections, argparse
sys.path.insert(0, os.path.dirname(os.path.abspath(__file__)))
import framework, netbuild, gen, engine_k2b

DEFAULT = ['core', 'block', 'routers', 'renege', 'renege_jockey', 'preempt', 'preempt_deep', 'renege_preempt', 'jsq_preempt',
           'prio_reroute', 'sched', 'sched_block']


# feature combinations that no stock region of gen.py produces often; registered at run time under new names (gen.py itself
# is not edited: gen.gen seeds its generator from the region NAME, so new names are independent streams)
EXTRA_REGIONS = {
    'x_dyn_preempt': dict(dyn=1.0, prio=1.0, preempt=1.0, multiclass=True, noblock=True),
    'x_dyn_preempt_block': dict(dyn=1.0, prio=1.0, preempt=1.0, reroute=True, multiclass=True, block=0.6),
    'x_routers_reroute': dict(routers=1.0, prio=1.0, preempt=1.0, reroute=True, multiclass=True, block=0.4),
    'x_routers_sched': dict(routers=1.0, sched=1.0, schedpre=0.6, reroute=True, block=0.4),
    'x_routers_renege': dict(routers=1.0, renege=1.0, block=0.4),
    'x_slotted_block': dict(slotted=1.0, block=0.7),
    'x_slotted_renege_dyn': dict(slotted=0.7, renege=1.0, dyn=1.0, multiclass=True, noblock=True),
    'x_sched_dyn_renege': dict(sched=1.0, schedpre=0.5, dyn=1.0, renege=0.7, multiclass=True, block=0.3),
    'x_sched_preempt': dict(sched=1.0, schedpre=0.5, reroute=True, prio=1.0, preempt=1.0, multiclass=True, block=0.3),
    'x_everything': dict(prio=0.7, preempt=0.7, reroute=True, sched=0.5, schedpre=0.5, slotted=0.2, renege=0.6, dyn=0.5, routers=0.6, block=0.5,
                         multiclass=True),
}
gen.REGIONS.update({k: v for k, v in EXTRA_REGIONS.items() if k not in gen.REGIONS})


def driver():
    if os.environ.get('K2B_DRIVER'):
        framework.DRIVER = os.environ['K2B_DRIVER']
        return framework.Driver()
    return framework._DRV


def coverage(tr, nframes, cov):
    """what the compared frames exercised: event kinds, record types, router kinds, pre-emptions, interruptions ..."""
    cfg = tr.cfg
    for f in tr.frames[:nframes]:
        cov['ev:%s' % f['label'][0]] += 1
        for e in f['cev']:
            if e[0] == 'Record':
                cov['rec:%d' % e[3]['type']] += 1
            elif e[0] == 'Route':
                r = cfg['routing'][e[3]]
                kind = r['kind'] if r['kind'] != 'nr' else r['routers'][e[1] - 1]['kind']
                cov['route:%s:%d' % (kind, e[8])] += 1
            elif e[0] == 'Preempt':
                cov['preempt' + ('_blocked' if e[5] else '')] += 1
            elif e[0] == 'Interrupt':
                cov['interrupt' + ('_blocked' if e[3] else '')] += 1
            elif e[0] in ('Block', 'RestartInterrupted', 'ServerOff', 'ServersOn', 'Baulk', 'Reject', 'ClassChangeW'):
                cov[e[0]] += 1
            elif e[0] == 'ClassChange' and e[3] != e[4]:
                cov['ClassChange'] += 1


def split_run(cfg, seed):
    """the same configuration run as 2-4 successive simulate_until_* calls (wrap_up_servers at every pause is compared too)"""
    import random
    rng = random.Random('k2b-split/%d' % seed)
    if cfg['run'][0] != 'time':
        return cfg
    T = cfg['run'][1]
    cuts = sorted(rng.sample(range(1, T), rng.randint(1, 3)))
    runs = [['time', c] for c in cuts]
    if rng.random() < 0.5:
        runs.insert(rng.randrange(len(runs) + 1), ['cust', rng.choice([0, 1, 3, 8, 15]), rng.choice(['Complete', 'Finish', 'Arrive', 'Accept'])])
    cfg['run'] = runs + [['time', T]]
    return cfg


def sweep(regions, n=60, seed0=100000, frames=150, size='quick', verbose=True, stop_first=False, split=False, cap_frames=None):
    drv = driver()
    out = {}
    first = None
    for region in regions:
        tot = collections.Counter()
        cov = collections.Counter()
        for seed in range(seed0, seed0 + n):
            cfg = gen.gen(region, seed, size)
            if not engine_k2b.in_scope2(cfg):
                tot['out_of_scope'] += 1
                continue
            if split:
                cfg = split_run(cfg, seed)
            if cap_frames is not None and cfg.get('max_frames'):
                cfg['max_frames'] = min(cfg['max_frames'], cap_frames)     # observed traces keep every snapshot: bound the memory
            tr = netbuild.run_cfg(cfg, max_frames=cfg.get('max_frames'))
            if tr.init is None or getattr(tr, 'rejected', False):
                tot['rejected'] += 1
                continue
            if tr.exc and tr.exc[0] == 'Inexact':
                tot['inexact'] += 1
                continue
            r = engine_k2b.check_trace(tr, drv, max_frames=frames)
            coverage(tr, r['frames'], cov)
            if r.get('exc'):
                cov['exc:%s:%s->%s' % (r['exc']['py'][0], r['exc']['py'][1], r['exc']['model'])] += 1
            tot['runs'] += 1
            tot['frames'] += r['frames']
            tot['wrapups'] += r.get('wrapups', 0)
            if tr.exc:
                tot['runs_ending_in_exception'] += 1
            if r['mismatch']:
                tot['mismatch'] += 1
                if first is None:
                    first = (region, seed, r['mismatch'])
                if verbose:
                    print('  MISMATCH', region, seed, json.dumps(r['mismatch'], default=str)[:400])
                if stop_first:
                    break
        out[region] = dict(tot)
        if verbose:
            print('%-16s %s' % (region, dict(tot)))
            print('    coverage: %s' % ' '.join('%s=%d' % kv for kv in sorted(cov.items())))
            sys.stdout.flush()
    return out, first


if __name__ == '__main__':
    ap = argparse.ArgumentParser()
    ap.add_argument('-n', type=int, default=60)
    ap.add_argument('-s', type=int, default=100000)
    ap.add_argument('-f', type=int, default=150)
    ap.add_argument('--size', default='quick')
    ap.add_argument('--quiet', action='store_true')
    ap.add_argument('--stop', action='store_true')
    ap.add_argument('-m', type=int, default=None, help='cap on the number of events simulated per run')
    ap.add_argument('--split', action='store_true', help='run every configuration as several successive simulate_until_* calls')
    ap.add_argument('regions', nargs='*')
    a = ap.parse_args()
    out, first = sweep(a.regions or DEFAULT, a.n, a.s, a.f, a.size, verbose=True, stop_first=a.stop, split=a.split, cap_frames=a.m)
    tr = sum(v.get('runs', 0) for v in out.values())
    tf = sum(v.get('frames', 0) for v in out.values())
    tm = sum(v.get('mismatch', 0) for v in out.values())
    print('TOTAL runs=%d frames=%d mismatches=%d' % (tr, tf, tm))
    print('FIRST', json.dumps(first, default=str)[:1500] if first else None)
    sys.exit(1 if tm else 0)

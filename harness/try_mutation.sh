#!/bin/sh
# usage: try_mutation.sh <patch.diff> <check ids...>
# Runs the quick checks against a SCRATCH WORKTREE of /repo with the patch applied (CIW_REPO points the observer at it),
# so that /repo itself is never modified and several people can try mutations at the same time.  The worktree is removed afterwards.
# (The final protocol - git -C /repo apply / run / git -C /repo checkout -- . - gives the same result; see harness/mutation_matrix.py --in-place.)
patch=$(readlink -f "$1"); shift
wt=$(mktemp -d /tmp/tm_XXXXXX); rmdir "$wt"
git -C /repo worktree add --detach "$wt" HEAD -q || exit 2
if ! git -C "$wt" apply "$patch"; then echo "patch does not apply"; git -C /repo worktree remove --force "$wt"; exit 2; fi
cd /verif
for id in "$@"; do
  out=$(CIW_REPO="$wt" PYTHONPATH="$wt" VERIF_EVIDENCE_DIR="$wt/_evidence" ./check "$id" --tier quick 2>&1); rc=$?
  echo "== $id rc=$rc: $(echo "$out" | grep -c VIOLATION) violation line(s); $(echo "$out" | tail -1)"
done
git -C /repo worktree remove --force "$wt"; git -C /repo worktree prune

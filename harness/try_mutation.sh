#!/bin/sh
# usage: try_mutation.sh <patch.diff> <check ids...>   -- applies the patch to /repo, runs the quick checks, reverts
patch="$1"; shift
cd /repo || exit 2
git apply --check "$patch" || { echo "patch does not apply"; exit 2; }
git apply "$patch"
cd /verif
for id in "$@"; do
  out=$(./check "$id" --tier quick 2>&1); rc=$?
  echo "== $id rc=$rc: $(echo "$out" | grep -c VIOLATION) violation line(s); $(echo "$out" | tail -1)"
done
cd /repo && git checkout -- . && git status --short | head -3

"""sx.py -- serialiser for the integer-tree wire format (see coq/Base/Sx.v)."""

MARK = {None: '()', 'inf': '(0)', 'nan': '(1)', 'T': '(2)', 'ninf': '(9)'}


def dump(o):
    out = []
    _d(o, out)
    return ''.join(out)


def _d(o, out):
    if o is None or isinstance(o, str):
        out.append(MARK.get(o, '(1)'))          # any other string where a number belongs: not a number
    elif o is True:
        out.append('1')
    elif o is False:
        out.append('0')
    elif isinstance(o, int):
        out.append(str(o))
    elif isinstance(o, (list, tuple)):
        out.append('(')
        first = True
        for x in o:
            if not first:
                out.append(' ')
            first = False
            _d(x, out)
        out.append(')')
    else:
        raise TypeError('sx: %r' % (o,))


def to_coq(o):
    """the same tree as a Gallina term of type sx (for the vm_compute cross-check)."""
    if o is None or isinstance(o, str):
        return {'()': 'L []', '(0)': 'L [A 0]', '(1)': 'L [A 1]', '(2)': 'L [A 2]', '(9)': 'L [A 9]'}[MARK.get(o, '(1)')]
    if o is True:
        return 'A 1'
    if o is False:
        return 'A 0'
    if isinstance(o, int):
        return 'A %d' % o if o >= 0 else 'A (%d)' % o
    return 'L [' + '; '.join(to_coq(x) for x in o) + ']'

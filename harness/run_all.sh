#!/bin/sh
# usage: run_all.sh [quick|thorough]  -- runs every check registered in MANIFEST.json, one line per check
tier=${1:-quick}
cd /verif
for id in $(python3 -c "import json;print(' '.join(c['property_id'] for c in json.load(open('MANIFEST.json'))['checks']))"); do
  start=$(date +%s)
  out=$(./check $id --tier $tier 2>&1); rc=$?
  echo "$id rc=$rc $(( $(date +%s) - start ))s viol=$(echo "$out" | grep -c '^VIOLATION') known=$(echo "$out" | grep -c '^KNOWN-FINDING') :: $(echo "$out" | tail -1)"
done

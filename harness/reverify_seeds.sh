#!/bin/sh
# re-confirms every seeded change against the CURRENT /repo HEAD: patch applies, demo exits 0 without and non-zero with it
for d in /verif/seeded/*/; do
  n=$(basename $d); [ -f $d/patch.diff ] || continue
  wt=$(mktemp -d /tmp/rv_XXXXXX); rmdir $wt
  git -C /repo worktree add --detach $wt HEAD -q
  PYTHONPATH=$wt /venv/bin/python $d/demo.py >/dev/null 2>&1; c=$?
  if git -C $wt apply $d/patch.diff 2>/dev/null; then PYTHONPATH=$wt /venv/bin/python $d/demo.py >/dev/null 2>&1; m=$?; else m=noapply; fi
  git -C /repo worktree remove --force $wt
  echo "$n clean=$c mutated=$m"
done

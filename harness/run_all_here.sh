#!/bin/sh
# usage: harness/run_all_here.sh [quick|thorough] [ids...]  -- like run_all.sh but in the tree this script lies in (for `vp run` snapshots):
# builds the Coq development and the driver first, then runs every (or the named) check, one line per check
tier=${1:-quick}; shift
here=$(cd "$(dirname "$0")/.." && pwd)
cd "$here"
mkdir -p build
(cd coq && coq_makefile -f _CoqProject -o Makefile && make -j8 >/dev/null 2>&1) && ./ocaml/build.sh >/dev/null 2>&1 || { echo "BUILD FAILED"; exit 2; }
ids=${*:-$(python3 -c "import json;print(' '.join(c['property_id'] for c in json.load(open('MANIFEST.json'))['checks']))")}
for id in $ids; do
  start=$(date +%s)
  out=$(./check $id --tier $tier 2>&1); rc=$?
  echo "$id rc=$rc $(( $(date +%s) - start ))s viol=$(echo "$out" | grep -c '^VIOLATION') known=$(echo "$out" | grep -c '^KNOWN-FINDING') :: $(echo "$out" | tail -1)"
  echo "$out" | grep '^VIOLATION' | head -5
done

"""engine_k2.py -- stepwise correspondence (K2) between the Gallina engine model (coq/Engine) and the real engine:
for every executed event of an observed run inside the model's scope, the model is started from the IMPLEMENTATION's own
previous snapshot with the draws the implementation consumed in that event, and its resulting state and records must be
identical to the implementation's next snapshot and records."""
import sx

OK_ROUTING = ('tm',)


def in_scope(cfg):
    if any(isinstance(s, dict) for s in cfg['servers']):
        return False
    if cfg.get('preempt') is not None and any(cfg['preempt']):
        return False
    if cfg.get('ren') is not None or cfg.get('cct') is not None or cfg.get('exact') or cfg.get('detector'):
        return False
    if cfg.get('ps') is not None and any(cfg['ps']):
        return False
    if cfg.get('spf') is not None and any(cfg['spf']):
        return False
    if any(r['kind'] not in OK_ROUTING for r in cfg['routing']):
        return False
    return True


def opt(x):
    return None if (x is None or x == 'inf') else x


def enc_cfg(cfg):
    n, k = cfg['n'], cfg['k']
    nodes = []
    for j in range(n):
        c = cfg['servers'][j]
        q = cfg['qcap'][j] if cfg.get('qcap') is not None else 'inf'
        cap = None if (c == 'inf' or q == 'inf') else c + q
        ccm = cfg['ccm'][j] if cfg.get('ccm') is not None else None
        disc = {'FIFO': 0, 'LIFO': 1, 'SIRO': 2}[cfg['disc'][j]] if cfg.get('disc') is not None else 0
        nodes.append([None if c == 'inf' else c, cap, [] if ccm is None else [ccm], disc])
    prio = cfg.get('prio') or [0] * k
    tm = [[list(cfg['routing'][c]['rows'][j]) for j in range(n)] for c in range(k)]
    bk = [[([] if (cfg.get('baulk') is None or cfg['baulk'][c][j] is None) else [list(cfg['baulk'][c][j])]) for j in range(n)] for c in range(k)]
    return [k, nodes, prio, max(prio) + 1, opt(cfg.get('syscap')), tm, bk]


def enc_ind(d):
    st = d['service_time']
    return [d['id'], d['cls'], d['pcls'], d['ocls'], d['prio'], d['pprio'], d['node'], d['arrival_date'], d['service_start_date'],
            st if isinstance(st, int) else None, d['service_end_date'], d['exit_date'], 1 if d['blocked'] else 0, d['server'], d['dest'], d['qa'],
            None, d['nrec']]


def enc_state(s, cfg, next_active, now):
    n, k = cfg['n'], cfg['k']
    a = s['arr']
    dates = [[opt(a['dates'].get((nd, c))) for c in range(k)] for nd in range(1, n + 1)]
    arr = [a['created'], a['accepted'], dates, a['next_node'] or 0, a['next_class'] or 0, opt(a['next_date'])]
    nodes = []
    for nd in s['nodes']:
        servers = [[x['id'], x['cust'], x['busy'], opt(x['next_end']), x['busy_time'], x['total_time'], x.get('wrapped', 0)] for x in (nd['servers'] or [])]
        nodes.append([nd['id'], nd['pop'], nd['insvc'], [list(q) for q in nd['queues']], servers, [list(b) for b in nd['bq']], nd['lenbq'],
                      opt(nd['next_date']), [i for i in nd['next_inds'] if i is not None]])
    inds = [enc_ind(s['inds'][i]) for i in sorted(s['inds'])]
    return [now if isinstance(now, int) else 0, next_active, arr, nodes, list(s['exit']['ids']), s['exit']['n'], s['exit']['completed'], inds]


TWO53 = 2 ** 53


def draws_of(cev):
    arr, batch, svc, unif = [], [], [], []
    for e in cev:
        if e[0] == 'ArrDraw':
            arr.append(e[3])
        elif e[0] == 'Batch':
            batch.append(e[3])
        elif e[0] == 'SvcTime':
            svc.append(e[4])
        elif e[0] == 'Unif':
            unif.append(int(e[1] * TWO53))
    return [arr, batch, svc, unif]


def enc_rec(e):
    r = e[3]
    def o(v):
        return v if isinstance(v, int) else None
    dst = r['destination']
    return [r['id'], r['cls'], r['ocls'], r['node'], r['type'], o(r['arrival_date']), o(r['waiting_time']), o(r['service_start_date']), o(r['service_time']),
            o(r['service_end_date']), o(r['time_blocked']), o(r['exit_date']), dst if isinstance(dst, int) else None,
            o(r['queue_size_at_arrival']), o(r['queue_size_at_departure']), o(r['server_id'])]


FIELDS = ['now', 'next_active', 'arrival_node', 'nodes', 'exit_ids', 'exit_n', 'exit_completed', 'individuals']


def parse(txt):
    """minimal reader of the integer-tree wire format"""
    pos = [0]

    def item():
        while txt[pos[0]] == ' ':
            pos[0] += 1
        if txt[pos[0]] == '(':
            pos[0] += 1
            out = []
            while True:
                while txt[pos[0]] == ' ':
                    pos[0] += 1
                if txt[pos[0]] == ')':
                    pos[0] += 1
                    return out
                out.append(item())
        j = pos[0]
        while pos[0] < len(txt) and (txt[pos[0]] == '-' or txt[pos[0]].isdigit()):
            pos[0] += 1
        return int(txt[j:pos[0]])
    return item()


def norm(t):
    """the tree as the model prints it: None -> [] , bools -> ints"""
    if t is None:
        return []
    if t is True:
        return 1
    if t is False:
        return 0
    if isinstance(t, (list, tuple)):
        return [norm(x) for x in t]
    return t


IND_F = ['id', 'cls', 'pcls', 'ocls', 'prio', 'pprio', 'node', 'arr', 'sst', 'stime', 'send', 'exit', 'blocked', 'server', 'dest', 'qa', 'qd', 'nrec']
SRV_F = ['id', 'cust', 'busy', 'next_end', 'busy_time', 'total_time', 'wrapped']
NODE_F = ['id', 'pop', 'insvc', 'queues', 'servers', 'bq', 'lenbq', 'next_date', 'next_inds']
ARR_F = ['created', 'accepted', 'dates', 'next_node', 'next_cls', 'next_date']
REC_F = ['id', 'cls', 'ocls', 'node', 'type', 'arr', 'wait', 'sst', 'stime', 'send', 'blocked', 'exit', 'dest', 'qa', 'qd', 'server']


def _ent(kind, names, a, b, out):
    if len(a) != len(b):
        out.add((kind, '*'))
        return
    for n, x, y in zip(names, a, b):
        if x != y:
            out.add((kind, n))


def diff_fields(got, exp, got_recs, exp_recs):
    """the set of (entity kind, field) pairs on which model and implementation differ after one event"""
    out = set()
    for name, a, b in zip(FIELDS, got, exp):
        if a == b:
            continue
        if name == 'arrival_node':
            _ent('arr', ARR_F, a, b, out)
        elif name == 'nodes':
            if len(a) != len(b):
                out.add(('node', '*'))
            for x, y in zip(a, b):
                if x != y:
                    _ent('node', NODE_F, x, y, out)
                    if x[4] != y[4]:
                        if len(x[4]) != len(y[4]):
                            out.add(('server', '*'))
                        for sx_, sy in zip(x[4], y[4]):
                            if sx_ != sy:
                                _ent('server', SRV_F, sx_, sy, out)
        elif name == 'individuals':
            da = {x[0]: x for x in a}
            db = {x[0]: x for x in b}
            if set(da) != set(db):
                out.add(('ind', '*'))
            for i in set(da) & set(db):
                if da[i] != db[i]:
                    _ent('ind', IND_F, da[i], db[i], out)
        else:
            out.add(('top', name))
    if got_recs != exp_recs:
        if len(got_recs) != len(exp_recs):
            out.add(('rec', '*'))
        for x, y in zip(got_recs, exp_recs):
            if x != y:
                _ent('rec', REC_F, x, y, out)
    return out


INV_NAMES = ['wfx', 'cap', 'clk', 'svc', 'srv', 'idle', 'rows', 'blk', 'who', 'hzn', 'cnt']


def check_trace(tr, drv, max_frames=80, mask=None, inv_mask=None, grid=None):
    """-> dict(frames, mismatch = first divergence that touches the mask (all fields when mask is None), other = number of
    frames that diverged only outside the mask)"""
    cfg = tr.cfg
    ecfg = enc_cfg(cfg)
    prev = tr.init
    res = {'frames': 0, 'mismatch': None, 'other': 0}
    if not tr.frames:
        return res
    lab = tr.frames[0]['label']
    nxt = 0 if lab[0] == 'arrival' else lab[1]
    now = tr.frames[0]['now']
    ends = list(getattr(tr, 'run_ends', None) or [])
    runs = cfg['run'] if isinstance(cfg['run'][0], list) else [cfg['run']]
    ci = 0
    # the hypotheses of the T2 run theorems (Conserve.WFx [], Capacity.J + SysCap.Sysq, Clock.Clk, ...) evaluated by the
    # extracted Coq booleans (Inv/AllRun.invs_b) on the real engine's initial snapshot; later snapshots: what they promise
    def invs(state):
        v = drv.ask('m36', sx.dump([ecfg, state]))
        if v[0] != 'M':
            return None
        o = parse(v[1])
        return o if isinstance(o, list) else None
    # C03: the journey invariant is about the state AND the cumulative record history AND the arrival nodes: all three real
    hist, spawned = [], []
    want_jrn = inv_mask is not None and 'jrn' in inv_mask

    def jrn(state):
        v = drv.ask('m37', sx.dump([ecfg, state, hist, spawned]))
        return v[1].strip() if v[0] == 'M' else str(v)
    res['jrn_frames'] = 0
    # C20: grid = g > 1 when every time value of the configuration is a multiple of g: the hypotheses and the conclusion of the DateSum
    # theorems (every date / duration of every state and record is a multiple of g) on the real snapshots and records (dispatch_model 43)
    def on_grid(state, draws, recs, frame, label):
        gv = drv.ask('m43', sx.dump([grid, ecfg, state, draws, recs]))
        go = parse(gv[1]) if gv[0] == 'M' else None
        if not isinstance(go, list) or any(x != 1 for x in go):
            res['mismatch'] = {'frame': frame, 'what': 'grid (DateSum.ds_b): a date or duration of the real snapshot / records is not a multiple of g, or a record duration is not the difference of its dates',
                               'g': grid, 'got [draws on grid, state+records on grid]': go, 'label': label}
            return False
        res['grid_frames'] = res.get('grid_frames', 0) + 1
        return True
    if grid and not on_grid(enc_state(prev, cfg, nxt, now if isinstance(now, int) else 0), [[], [], [], []], [], 0, None):
        return res
    b0 = invs(enc_state(prev, cfg, nxt, now if isinstance(now, int) else 0))
    res['inv_init'] = b0
    res['inv_frames'] = 0
    if b0 is None or any(x != 1 for x in b0):
        bad = [INV_NAMES[i] for i, x in enumerate(b0 or []) if x != 1]
        res['mismatch'] = {'frame': 0, 'what': 'the initial snapshot does not satisfy the hypotheses of the T2 theorems', 'invariants': bad, 'got': b0}
        return res
    for k, f in enumerate(tr.frames[:max_frames]):
        crossed = False
        while ci < len(ends) and ends[ci]['frames'] == k:
            # call number ci returned after k events: its wrap-up changed the server statistics; model it from the current state
            if runs[ci][0] == 'time':
                v = drv.ask('m31', sx.dump([ecfg, enc_state(prev, cfg, nxt, now if isinstance(now, int) else 0), runs[ci][1]]))
                outw = parse(v[1]) if v[0] == 'M' else [9]
                if outw[0] == 0:
                    expw = norm(enc_state(ends[ci]['final'], cfg, nxt, now if isinstance(now, int) else 0))
                    dw = diff_fields(outw[1], expw, [], [])
                    relw = dw if mask is None else set(x for x in dw if x in mask or (x[0], '*') in mask or x[1] == '*')
                    if relw:
                        res['mismatch'] = {'frame': k, 'what': 'wrap_up_servers', 'call': ci, 'fields': sorted(relw)[:12]}
                        return res
                    res['wrapups'] = res.get('wrapups', 0) + 1
                    if dw:
                        res['other'] += 1
            prev = ends[ci]['final']
            ci += 1
            crossed = True
        if crossed:
            # the next call re-enters the loop through find_next_active_node: take the event it chose
            nxt = 0 if f['label'][0] == 'arrival' else f['label'][1]
            now = f['now']
        if not isinstance(now, int):
            break
        pre = enc_state(prev, cfg, nxt, now)
        v = drv.ask('m30', sx.dump([ecfg, pre, draws_of(f['cev'])]))
        if v[0] != 'M':
            res['mismatch'] = {'frame': k + 1, 'what': 'driver', 'detail': str(v)[:200]}
            return res
        out = parse(v[1])
        if out[0] != 0:
            res['mismatch'] = {'frame': k + 1, 'what': 'model error', 'code': out, 'label': f['label']}
            return res
        exp_state = norm(enc_state(f['snap'], cfg, f['next'], f['next_date']))
        got = out[1]
        if not isinstance(f['next_date'], int):
            got[0] = exp_state[0]          # every date infinite: the implementation's clock becomes inf, the model keeps it
        exp_recs = norm([enc_rec(e) for e in f['cev'] if e[0] == 'Record'])
        # C20 (grid mode): the REAL snapshot and records first, whatever the model says: a date off the grid is a failing input of the property
        if grid and isinstance(f['next_date'], int) and not on_grid(enc_state(f['snap'], cfg, f['next'], f['next_date']), draws_of(f['cev']), exp_recs, k + 1, f['label']):
            return res
        d = diff_fields(got, exp_state, out[2], exp_recs)
        if any(out[3]):
            d.add(('top', 'draws_left'))
        if d:
            rel = d if mask is None else set(x for x in d if x in mask or (x[0], '*') in mask or x[1] == '*')
            if rel:
                res['mismatch'] = {'frame': k + 1, 'what': 'state/records', 'label': f['label'], 'fields': sorted(rel)[:12], 'all_fields': sorted(d)[:20]}
                return res
            res['other'] += 1
        res['frames'] += 1
        prev, nxt, now = f['snap'], f['next'], f['next_date']
        if isinstance(now, int):
            # the invariants on the implementation's own next state (T2 promises them for the model; K2 says the states agree)
            bk = invs(enc_state(prev, cfg, nxt, now))
            dok = all(isinstance(x, int) and x >= 0 for x in [e[3] for e in f['cev'] if e[0] == 'ArrDraw'] + [e[4] for e in f['cev'] if e[0] == 'SvcTime'])
            if bk is None or any(x != 1 for x in bk):
                bad = [INV_NAMES[i] for i, x in enumerate(bk or []) if x != 1]
                if inv_mask is None or any(b in inv_mask for b in bad) or not bad:
                    res['mismatch'] = {'frame': k + 1, 'what': 'a T2 invariant does not hold on the real snapshot', 'invariants': bad, 'label': f['label'], 'draws_nonneg': dok}
                    return res
                res['other'] += 1
            else:
                res['inv_frames'] += 1
            if want_jrn and k < 80:       # the history grows with the run: the journey test is quadratic in it
                hist.extend(norm([enc_rec(e) for e in f['cev'] if e[0] == 'Record']))
                spawned.extend([[e[2], e[1]] for e in f['cev'] if e[0] == 'Spawn'])
                jv = jrn(enc_state(prev, cfg, nxt, now))
                if jv != '1':
                    res['mismatch'] = {'frame': k + 1, 'what': 'the journey invariant (Journey.jrn_b) does not hold on the real snapshot with the real record history', 'got': jv, 'label': f['label']}
                    return res
                res['jrn_frames'] += 1
    return res

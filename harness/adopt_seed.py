"""adopt_seed.py <pid> [--keep]: takes a sub-agent's /tmp/mut_<pid>/_mutation/{A,B}, confirms each in a fresh scratch worktree
(suite passes with the patch alone; demo exits 0 without and non-zero with it), stores it as /verif/seeded/<pid>_<X>/ with
meta.json, and removes the agent's worktree."""
import sys, os, re, json, shutil, subprocess
VERIF = os.path.dirname(os.path.dirname(os.path.abspath(__file__)))
pid = sys.argv[1]
src = '/tmp/mut_%s/_mutation' % pid


def sh(cmd, **kw):
    return subprocess.run(cmd, shell=True, capture_output=True, text=True, **kw)


def needs_of(notes):
    m = re.search(r'(?im)^#+[^\n]*(needs|trigger|manifest)[^\n]*\n(.*?)(?=^#+ |\Z)', notes, flags=re.S | re.M)
    txt = (m.group(2) if m else notes)[:1500].strip()
    return txt


for X in sorted(os.listdir(src)):
    d = os.path.join(src, X)
    if not os.path.exists(os.path.join(d, 'patch.diff')):
        continue
    dst = os.path.join(VERIF, 'seeded', '%s_%s' % (pid, X))
    os.makedirs(dst, exist_ok=True)
    for f in os.listdir(d):
        if os.path.isfile(os.path.join(d, f)):
            shutil.copy(os.path.join(d, f), os.path.join(dst, f))
    wt = '/tmp/vs_%s_%s' % (pid, X)
    sh('git -C /repo worktree remove --force %s' % wt)
    r = sh('git -C /repo worktree add --detach %s HEAD -q' % wt)
    env = dict(os.environ, PYTHONPATH=wt, PYTHONHASHSEED='0')
    clean = sh('/venv/bin/python %s/demo.py' % dst, cwd=wt, env=env).returncode
    ap = sh('git apply %s/patch.diff' % dst, cwd=wt)
    mut = sh('/venv/bin/python %s/demo.py' % dst, cwd=wt, env=env).returncode if ap.returncode == 0 else None
    tests = sh('/venv/bin/python -m pytest -q -p no:cacheprovider --timeout=900 2>&1 | tail -1', cwd=wt, env=env).stdout.strip()
    sh('git -C /repo worktree remove --force %s' % wt)
    ok = (ap.returncode == 0 and clean == 0 and mut not in (0, None) and '330 passed' in tests)
    notes = open(os.path.join(dst, 'notes.md')).read() if os.path.exists(os.path.join(dst, 'notes.md')) else ''
    meta = {'property': pid, 'variant': X, 'breaks': pid, 'needs_to_manifest': needs_of(notes),
            'files_touched': re.findall(r'^\+\+\+ b/(\S+)', open(os.path.join(dst, 'patch.diff')).read(), flags=re.M),
            'confirmed': ok,
            'what_was_run': {'scratch_worktree': wt + ' (removed afterwards)',
                             'demo_on_unchanged_tree_rc': clean, 'demo_with_patch_rc': mut,
                             'suite_with_patch': tests,
                             'commands': ['git -C /repo worktree add --detach <wt> HEAD', 'PYTHONPATH=<wt> /venv/bin/python demo.py   (unchanged)',
                                          'git apply patch.diff', 'PYTHONPATH=<wt> /venv/bin/python demo.py   (with the change)',
                                          'PYTHONPATH=<wt> /venv/bin/python -m pytest -q -p no:cacheprovider --timeout=900',
                                          'git -C /repo worktree remove --force <wt>']},
            'source': 'written by an independent sub-agent that saw only the property text and its own scratch worktree'}
    json.dump(meta, open(os.path.join(dst, 'meta.json'), 'w'), indent=1)
    open(os.path.join(dst, 'verified.txt'), 'w').write('%s_%s: demo clean rc=%s, demo mutated rc=%s, suite with patch: %s\n' % (pid, X, clean, mut, tests))
    print('%s_%s confirmed=%s (clean rc=%s, mutated rc=%s, %s)' % (pid, X, ok, clean, mut, tests))
    if not ok:
        print('   NOT CONFIRMED - kept in seeded/ with confirmed=false for inspection')
if '--keep' not in sys.argv:
    sh('git -C /repo worktree remove --force /tmp/mut_%s' % pid)
    shutil.rmtree('/tmp/mut_%s' % pid, ignore_errors=True)
    sh('git -C /repo worktree prune')

import sys, os, argparse
sys.path.insert(0, os.path.dirname(os.path.abspath(__file__)))
import framework

ap = argparse.ArgumentParser()
ap.add_argument('pid')
ap.add_argument('--tier', default=os.environ.get('VERIF_TIER', 'quick'))
ap.add_argument('--replay', default=None)
a = ap.parse_args()
seed = int(os.environ.get('VERIF_SEED', '1'))
sys.exit(framework.run_check(a.pid, a.tier, seed, a.replay))

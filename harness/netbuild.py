"""netbuild.py -- JSON configuration -> ciw.Network / observed Simulation -> Trace.
All times in a configuration are integer ticks (obs.SCALE per time unit); all
probabilities are integer eighths."""
import math, random
from obs import *   # noqa  (ciw, OBS, Scripted, traced classes, Trace, snapshot, tk ...)
import obs

PDEN = 8


_TIME_DEN = [None]   # optional override of the ticks-per-time-unit used by fl (C20: decimal grids); None = obs.SCALE


def fl(t):
    return t / (SCALE if _TIME_DEN[0] is None else _TIME_DEN[0])


class time_den:
    """with netbuild.time_den(10): ...  builds/runs a configuration with 10 ticks per time unit
    (values t/10 are not dyadic).  Default behaviour (SCALE ticks per unit) is unchanged outside the block."""

    def __init__(self, den):
        self.den = den

    def __enter__(self):
        self.old = _TIME_DEN[0]
        _TIME_DEN[0] = self.den

    def __exit__(self, *a):
        _TIME_DEN[0] = self.old


def cname(i):
    return 'C%d' % i


SPECIAL = {'nan': float('nan'), 'str': 'x', 'none': None, 'half': 1.5, 'ninf': float('-inf')}


DIST_HOOK = [None]    # optional replacement of the scripted distributions by library ones (C15): f(vals, kind, node, cls, integer)


COMBINE = [False]     # cfg['combine']: times are given to the engine through ciw's arithmetic on distributions (a - b)


class ScriptedShift(Scripted):
    """the left operand of a combined distribution `ScriptedShift(...) - Deterministic(shift)`: logs the value the COMBINATION
    hands to the engine (v), returns v + shift (always a valid sample by itself when v >= -shift)"""

    def __init__(self, vals, kind, node, cls, shift):
        super().__init__(vals, kind, node, cls)
        self.shift = shift

    def sample(self, t=None, ind=None):
        return super().sample(t, ind) + self.shift


def _dist(vals, kind, node, cls, integer=False):
    """value lists may contain special tokens (malformed-sample stream of C10/C14): see SPECIAL"""
    if vals is None:
        return None
    if DIST_HOOK[0] is not None:
        return DIST_HOOK[0](vals, kind, node, cls, integer)
    if COMBINE[0] and not integer and kind in ('arr', 'svc') and all(not isinstance(v, str) and v >= -8 for v in vals):
        sh = fl(8)
        return ScriptedShift([fl(v) for v in vals], kind, node, cls, sh) - ciw.dists.Deterministic(sh)
    if integer:
        return Scripted([(SPECIAL[v] if isinstance(v, str) else int(v)) for v in vals], kind, node, cls)
    return Scripted([(SPECIAL[v] if isinstance(v, str) else fl(v)) for v in vals], kind, node, cls)


class BaulkTable:
    """baulking function given by a table of probabilities (in quarters)."""

    def __init__(self, table, node, cls):
        self.table, self.node, self.cls = table, node, cls

    def __call__(self, n, Q=None, next_ind=None, next_node=None):
        p = self.table[min(n, len(self.table) - 1)] / 4.0
        OBS.ev('BaulkFn', self.node, self.cls, n, self.table[min(n, len(self.table) - 1)], iid(next_ind))
        return p


class RouteFn:
    def __init__(self, routes):
        self.routes = routes

    def __call__(self, ind, simulation=None):
        r = self.routes[ind.id_number % len(self.routes)]
        return [list(x) if isinstance(x, list) else x for x in r]


class JockeyDirect(ciw.routing.Direct):
    """Direct routing whose customers, when they renege, jockey to a given node instead of leaving (a user-defined router
    as the documentation describes: only next_node_for_jockeying is overridden)."""

    def __init__(self, to, jock):
        super().__init__(to=to)
        self.jock = jock

    def next_node_for_jockeying(self, ind):
        return self.simulation.nodes[self.jock]


class JockeyAlternate(ciw.routing.Direct):
    """the same with a STATEFUL jockeying rule (round robin over a list of destinations, restarted for every simulation): each call of
    next_node_for_jockeying gives the next one, so calling it twice for one reneging customer is visible"""

    def __init__(self, to, jocks):
        super().__init__(to=to)
        self.jocks = list(jocks)
        self.calls = 0

    def initialise(self, simulation, node):
        super().initialise(simulation, node)
        self.calls = 0

    def next_node_for_jockeying(self, ind):
        j = self.jocks[self.calls % len(self.jocks)]
        self.calls += 1
        return self.simulation.nodes[j]


def _node_router(r):
    k = r['kind']
    R = ciw.routing
    if k == 'jockey':
        return JockeyDirect(to=r['to'], jock=r['jock'])
    if k == 'jockey_alt':
        return JockeyAlternate(to=r['to'], jocks=r['jocks'])
    if k == 'direct':
        return R.Direct(to=r['to'])
    if k == 'leave':
        return R.Leave()
    if k == 'prob':
        return R.Probabilistic(destinations=list(r['dests']), probs=[p / PDEN for p in r['probs']])
    if k == 'jsq':
        return R.JoinShortestQueue(destinations=list(r['dests']), tie_break=r.get('tie', 'random'))
    if k == 'lb':
        return R.LoadBalancing(destinations=list(r['dests']), tie_break=r.get('tie', 'random'))
    if k == 'cycle':
        return R.Cycle(cycle=list(r['cycle']))
    raise ValueError(k)


def _routing(r):
    k = r['kind']
    R = ciw.routing
    if k == 'tm':
        return R.TransitionMatrix(transition_matrix=[[p / PDEN for p in row] for row in r['rows']])
    if k == 'nr':
        return R.NetworkRouting(routers=[_node_router(x) for x in r['routers']])
    if k == 'pb':
        return R.ProcessBased(RouteFn(r['routes']))
    if k == 'fpb':
        return R.FlexibleProcessBased(RouteFn(r['routes']), rule=r['rule'], choice=r['choice'])
    raise ValueError(k)


def _servers(s):
    if s == 'inf':
        return float('inf')
    if isinstance(s, int):
        return s
    if s['kind'] == 'sched':
        return ciw.Schedule(numbers_of_servers=list(s['c']), shift_end_dates=[fl(x) for x in s['ends']],
                            preemption=s.get('pre', False), offset=fl(s.get('offset', 0)))
    if s['kind'] == 'slotted':
        return ciw.Slotted(slots=[fl(x) for x in s['slots']], slot_sizes=list(s['sizes']),
                           capacitated=bool(s.get('cap', False)), preemption=s.get('pre', False),
                           offset=fl(s.get('offset', 0)))
    raise ValueError(s)


def _spf_hi(srv, ind):
    return -srv.id_number


def _spf_idle(srv, ind):
    return (srv.busy_time, srv.id_number)


def _spf_cls(srv, ind):
    return ((srv.id_number + int(str(ind.customer_class)[1:])) % 2, srv.id_number)


# server priority functions (cfg['spf'], per node): which free server a customer takes; deterministic, no draws
SPF = {'hi': _spf_hi, 'idle': _spf_idle, 'cls': _spf_cls}

DISC = {'FIFO': ciw.disciplines.FIFO, 'LIFO': ciw.disciplines.LIFO, 'SIRO': ciw.disciplines.SIRO}


def make_network(cfg):
    n, k = cfg['n'], cfg['k']
    names = [cname(i) for i in range(k)]
    kw = {}
    COMBINE[0] = bool(cfg.get('combine'))
    kw['arrival_distributions'] = {names[c]: [_dist(cfg['arr'][c][j], 'arr', j + 1, c) for j in range(n)] for c in range(k)}
    kw['service_distributions'] = {names[c]: [_dist(cfg['svc'][c][j], 'svc', j + 1, c) for j in range(n)] for c in range(k)}
    kw['number_of_servers'] = [_servers(s) for s in cfg['servers']]
    if cfg.get('qcap') is not None:
        kw['queue_capacities'] = [float('inf') if q == 'inf' else q for q in cfg['qcap']]
    if cfg.get('syscap') not in (None, 'inf'):
        kw['system_capacity'] = cfg['syscap']
    if cfg.get('batch') is not None:
        kw['batching_distributions'] = {
            names[c]: [(_dist(cfg['batch'][c][j], 'batch', j + 1, c, integer=True)
                        if cfg['batch'][c][j] is not None else ciw.dists.Deterministic(1)) for j in range(n)]
            for c in range(k)}
    kw['routing'] = {names[c]: _routing(cfg['routing'][c]) for c in range(k)}
    if cfg.get('prio') is not None:
        pm = {names[c]: cfg['prio'][c] for c in (reversed(range(k)) if cfg.get('prio_rev') else range(k))}
        if cfg.get('preempt') is not None:
            kw['priority_classes'] = (pm, list(cfg['preempt']))
        else:
            kw['priority_classes'] = pm
    if cfg.get('disc') is not None:
        kw['service_disciplines'] = [DISC[d] for d in cfg['disc']]
    if cfg.get('ccm') is not None:
        # the same matrix may be written with its keys in another order (cfg['ccm_rev']): the meaning must not depend on it
        order = list(reversed(range(k))) if cfg.get('ccm_rev') else list(range(k))
        kw['class_change_matrices'] = [
            (None if m is None else {names[a]: {names[b]: m[a][b] / PDEN for b in order} for a in order})
            for m in cfg['ccm']]
    if cfg.get('cct') is not None:
        kw['class_change_time_distributions'] = {
            names[a]: {names[b]: _dist(cfg['cct'][a][b], 'cct', a, b) for b in range(k)} for a in range(k)}
    if cfg.get('ren') is not None:
        kw['reneging_time_distributions'] = {names[c]: [_dist(cfg['ren'][c][j], 'ren', j + 1, c) for j in range(n)]
                                             for c in range(k)}
    if cfg.get('baulk') is not None:
        kw['baulking_functions'] = {
            names[c]: [(BaulkTable(cfg['baulk'][c][j], j + 1, c) if cfg['baulk'][c][j] is not None else None)
                       for j in range(n)] for c in range(k)}
    if cfg.get('ps_thr') is not None:
        kw['ps_thresholds'] = list(cfg['ps_thr'])
    if cfg.get('spf') is not None:
        kw['server_priority_functions'] = [(SPF[x] if x is not None else None) for x in cfg['spf']]
    return ciw.create_network(**kw)


def make_tracker(cfg):
    t = cfg.get('tracker')
    T = ciw.trackers
    if t is None:
        return None
    if isinstance(t, str):
        return getattr(T, t)()
    name = t[0]
    if name == 'NodePopulationSubset':
        return T.NodePopulationSubset(list(t[1]))
    if name == 'GroupedNodePopulation':
        return T.GroupedNodePopulation([list(g) for g in t[1]])
    if name == 'NodeClassMatrix':
        # t[1] = the order of the columns (a permutation of the class indices): the documented class_ordering keyword
        if len(t) > 1 and t[1] is not None:
            return T.NodeClassMatrix(class_ordering=[cname(c) for c in t[1]])
        return T.NodeClassMatrix()
    return getattr(T, name)()


def _logged_tracker(t):
    """the same tracker object with its four update methods logged as C-events before they run (behaviour-free subclass):
    TrkAcc(node, class) / TrkBlk(node, destination, customer, previous class) / TrkRel(node, destination (0 = exit), customer,
    previous class, blocked) / TrkChg(node, previous class, class)"""
    base = type(t)

    def cls_ix(c):
        try:
            return cid(c)
        except Exception:
            return -1

    class Logged(base):
        def change_state_accept(s, node, ind):
            OBS.ev('TrkAcc', node.id_number, cls_ix(ind.customer_class))
            return super().change_state_accept(node, ind)

        def change_state_block(s, node, destination, ind):
            OBS.ev('TrkBlk', node.id_number, destination.id_number, ind.id_number, cls_ix(ind.previous_class))
            return super().change_state_block(node, destination, ind)

        def change_state_release(s, node, destination, ind, blocked):
            d = destination.id_number
            OBS.ev('TrkRel', node.id_number, d if isinstance(d, int) and 1 <= d <= len(node.simulation.transitive_nodes) else 0, ind.id_number,
                   cls_ix(ind.previous_class), 1 if blocked else 0)
            return super().change_state_release(node, destination, ind, blocked)

        def change_state_classchange(s, node, ind):
            OBS.ev('TrkChg', node.id_number, cls_ix(ind.previous_class), cls_ix(ind.customer_class))
            return super().change_state_classchange(node, ind)
    Logged.__name__ = base.__name__
    Logged.__qualname__ = base.__qualname__
    t.__class__ = Logged
    return t


def make_sim(cfg, network=None, traced=True):
    if network is None:
        network = make_network(cfg)
    OBS.classes = list(network.customer_class_names)
    kw = {}
    if cfg.get('detector'):
        kw['deadlock_detector'] = ciw.deadlock.StateDigraph()
    tr = make_tracker(cfg)
    if tr is not None:
        if traced:
            tr = _logged_tracker(tr)
        kw['tracker'] = tr
    if cfg.get('exact'):
        kw['exact'] = cfg['exact']
    if traced:
        ps = cfg.get('ps')
        if ps is not None and any(ps):
            kw['node_class'] = [TPSNode if p else TNode for p in ps]
        else:
            kw['node_class'] = TNode
        kw.update(arrival_node_class=TArr, exit_node_class=TExit, individual_class=TInd, server_class=TServer)
        Q = TSim(network, **kw)
    else:
        ps = cfg.get('ps')
        if ps is not None and any(ps):
            kw['node_class'] = [ciw.PSNode if p else ciw.Node for p in ps]
        Q = ciw.Simulation(network, **kw)
    return Q


def do_run(Q, run):
    kind = run[0]
    if kind == 'time':
        Q.simulate_until_max_time(fl(run[1]))
    elif kind == 'cust':
        Q.simulate_until_max_customers(run[1], method=run[2])
    elif kind == 'deadlock':
        Q.simulate_until_deadlock()
    else:
        raise ValueError(kind)


def run_cfg(cfg, max_frames=None, script_u=None, keep_sim=False):
    """Run the real implementation under observation. Returns a Trace."""
    install_shim()
    OBS.reset()
    tr = Trace()
    tr.cfg = cfg
    tr.max_frames = max_frames
    ciw.seed(cfg.get('seed', 0))
    OBS.script_u = list(script_u) if script_u else None
    try:
        net = make_network(cfg)
    except Exception as e:
        tr.exc = ('create_network',) + repo_site(e)
        tr.rejected = True
        return tr
    tr.rejected = False
    try:
        OBS.cev = []
        Q = make_sim(cfg, net)
        Q._trace = tr
        tr.init_cev = OBS.cev
        OBS.cev = []
        tr.init = snapshot(Q)
        if cfg.get('hist_new'):
            tr.hist_mark = 0
            obs.hist_collect(Q, tr)
        if keep_sim:
            tr.Q = Q
        runs = cfg['run'] if isinstance(cfg['run'][0], list) else [cfg['run']]
        tr.run_ends = []
        for r in runs:
            do_run(Q, r)
            tr.run_ends.append({'frames': len(tr.frames), 'now': tk(Q.current_time), 'final': snapshot(Q),
                                'util': [_util(n) for n in Q.transitive_nodes]})
        tr.records = collect_records(Q)
        if hasattr(Q, 'times_to_deadlock'):
            tr.ttd = [(repr(k), tk(v)) for k, v in Q.times_to_deadlock.items()]
    except StopRun:
        tr.stopped = True
        tr.records = collect_records(Q)
    except Inexact as e:
        tr.exc = ('Inexact', None, str(e))
    except Exception as e:
        tr.exc = repo_site(e)
        try:
            tr.records = collect_records(Q)
        except Exception:
            tr.records = None
    if tr.hist_mark is not None:
        try:
            obs.hist_collect(Q, tr)
            tr.hist_full = [(tk(e[0]), e[1]) for e in Q.statetracker.history]
        except Exception:
            tr.hist_full = None
    return tr


def _util(n):
    u = getattr(n, 'server_utilisation', None)
    if u is None:
        return None
    return (sum(tk(x) for x in n.all_servers_busy), sum(tk(x) for x in n.all_servers_total), u)


def collect_records(Q):
    """per customer: (location, [encoded records])."""
    out = {}
    for nd in Q.nodes[1:]:
        for i in nd.all_individuals:
            out[i.id_number] = (nd.id_number, [enc_record(r) for r in i.data_records])
    return out

"""engine_k2b.py -- stepwise correspondence (K2) between the stage-2 Gallina engine model (coq/Engine/State2.v, Engine2.v,
Codec2.v; dispatch_model cases 32 / 33) and the real engine: for every executed event of an observed run inside the model's
scope, the model is started from the IMPLEMENTATION's own previous snapshot with the draws the implementation consumed in
that event, and its resulting state and records must be identical to the implementation's next snapshot and records.

Stage 2 covers, on top of stage 1: every routing object (NetworkRouting with Direct / Leave / Probabilistic /
JoinShortestQueue / LoadBalancing / Cycle node routers, the jockeying Direct, ProcessBased, FlexibleProcessBased), reneging,
priority pre-emption (resume / restart / resample / reroute), server schedules (non-pre-emptive and pre-emptive), slotted
services and class change while waiting.

Entry point (signature compatible with engine_k2.check_trace):   check_trace(tr, drv, max_frames=80, mask=None)"""
import sx

STEP, WRAP = 'm32', 'm33'


ALLOW_DETECTOR = [True]     # the deadlock detector does not influence the engine; its digraph is not part of the model


def in_scope2(cfg):
    """configurations the stage-2 model covers: everything except processor sharing and exact arithmetic (the deadlock
    detector's own state is not part of the model, the engine under it is)."""
    if cfg.get('exact'):
        return False
    if cfg.get('detector') and not ALLOW_DETECTOR[0]:
        return False
    if cfg.get('ps') is not None and any(cfg['ps']):
        return False
    if any(x.get('kind') == 'jockey_alt' for r in (cfg.get('routing') or []) if isinstance(r, dict) and r.get('kind') == 'nr' for x in r['routers']):
        return False        # the harness's stateful jockeying router is not part of the model
    return True


in_scope = in_scope2


def opt(x):
    return None if (x is None or x == 'inf') else x


PRE = {False: 0, None: 0, 'resume': 1, 'restart': 2, 'resample': 3, 'reroute': 4}
SPF_CODE = {None: 0, 'hi': 1, 'idle': 2, 'cls': 3}     # the harness's server priority functions (netbuild.SPF)
NEXT_TYPE = {'end_service': 0, 'shift_change': 1, 'renege': 2, 'class_change': 3, 'slotted_service': 4, None: 5}


def enc_router(r):
    k = r['kind']
    if k == 'direct':
        return [0, r['to']]
    if k == 'leave':
        return [1]
    if k == 'prob':
        return [2, list(r['dests']), list(r['probs'])]
    if k in ('jsq', 'lb'):
        return [3, 1 if k == 'lb' else 0, list(r['dests']), 1 if r.get('tie', 'random') == 'order' else 0]
    if k == 'cycle':
        return [4, list(r['cycle'])]
    if k == 'jockey':
        return [5, r['to'], r['jock']]
    raise ValueError(k)


def enc_routing(r, n):
    k = r['kind']
    if k == 'tm':
        return [0, [[2, list(range(1, len(r['rows']) + 1)), list(row)] for row in r['rows']]]
    if k == 'nr':
        return [0, [enc_router(x) for x in r['routers']]]
    if k == 'pb':
        return [1, [[[x] for x in route] for route in r['routes']]]
    if k == 'fpb':
        return [2, [[list(step) for step in route] for route in r['routes']], 1 if r['rule'] == 'all' else 0,
                {'random': 0, 'jsq': 1, 'lb': 2}[r['choice']]]
    raise ValueError(k)


def enc_srv(s):
    if not isinstance(s, dict):
        return []
    if s['kind'] == 'sched':
        return [1, list(s['ends']), list(s['c']), s.get('offset', 0), PRE[s.get('pre', False)]]
    return [2, list(s['slots']), list(s['sizes']), s.get('offset', 0), 1 if s.get('cap', False) else 0, PRE[s.get('pre', False)]]


def enc_cfg(cfg, init=None):
    """init = the initial snapshot (node_capacity is read from it: Node.__init__ computes it once, with c = 0 for schedules)"""
    n, k = cfg['n'], cfg['k']
    nodes = []
    for j in range(n):
        c = cfg['servers'][j]
        q = cfg['qcap'][j] if cfg.get('qcap') is not None else 'inf'
        if init is not None:
            cap = opt(init['nodes'][j]['cap'])
        else:
            c0 = 0 if isinstance(c, dict) else c
            cap = None if (c0 == 'inf' or q == 'inf') else c0 + q
        ccm = cfg['ccm'][j] if cfg.get('ccm') is not None else None
        disc = {'FIFO': 0, 'LIFO': 1, 'SIRO': 2}[cfg['disc'][j]] if cfg.get('disc') is not None else 0
        pre = PRE[cfg['preempt'][j]] if (cfg.get('preempt') is not None and cfg.get('prio') is not None) else 0
        ren = [1 if (cfg.get('ren') is not None and cfg['ren'][cl][j] is not None) else 0 for cl in range(k)]
        spf = SPF_CODE[cfg['spf'][j]] if cfg.get('spf') is not None else 0
        nodes.append([cap, [] if ccm is None else [ccm], disc, enc_srv(c), pre, 1 if any(ren) else 0, ren, spf])
    prio = cfg.get('prio') or [0] * k
    routing = [enc_routing(cfg['routing'][c], n) for c in range(k)]
    bk = [[([] if (cfg.get('baulk') is None or cfg['baulk'][c][j] is None) else [list(cfg['baulk'][c][j])]) for j in range(n)] for c in range(k)]
    cct = [[1 if (cfg.get('cct') is not None and cfg['cct'][a][b] is not None) else 0 for b in range(k)] for a in range(k)]
    dyn = 1 if any(any(r) for r in cct) else 0
    return [k, nodes, prio, max(prio) + 1, opt(cfg.get('syscap')), routing, bk, dyn, cct]


def _xz(v):
    """attribute that may be unset (None), float inf ('inf') or a number"""
    return v


def _route(r):
    if r is None:
        return []
    return [[(list(x) if isinstance(x, list) else [x]) for x in r]]


def enc_ind(d):
    st = d['service_time']
    mark = 0
    if isinstance(st, tuple):
        mark = {'resume': 1, 'restart': 2, 'resample': 3}.get(st[1], 9)
    ost = d.get('original_service_time')
    return [d['id'], d['cls'], d['pcls'], d['ocls'], d['prio'], d['pprio'], d['node'], d['arrival_date'], d['service_start_date'],
            st if isinstance(st, int) else None, d['service_end_date'], d['exit_date'], 1 if d['blocked'] else 0, d['server'], d['dest'], d['qa'],
            None, d['nrec'],
            mark, 1 if d.get('interrupted') else 0, _xz(d.get('reneging_date')), _xz(d.get('class_change_date')), d.get('next_class'),
            d.get('time_left'), ost if isinstance(ost, int) else None, d.get('original_service_start_date'), _route(d.get('route'))]


def sched_view(nd):
    s = nd.get('sched')
    if s is None:
        return []
    if nd.get('slotted'):
        return [s['slot_size'], s['next_slot']]
    return [s['c'], s['next_shift']]


def enc_node(nd):
    servers = [[x['id'], x['cust'], x['busy'], opt(x['next_end']), x['busy_time'], x['total_time'], x.get('wrapped', 0),
                x.get('offduty', 0), x.get('start', 0), x.get('shift_end')] for x in (nd['servers'] or [])]
    hi = nd.get('highest_id')
    s = nd.get('sched')
    return [nd['id'], nd['pop'], nd['insvc'], [list(q) for q in nd['queues']], servers, [list(b) for b in nd['bq']], nd['lenbq'],
            opt(nd['next_date']), [i for i in nd['next_inds'] if i is not None],
            opt(nd['c']), hi if isinstance(hi, int) else 0, list(nd['interrupted']), nd['nint'], list(nd['overtime']),
            list(nd['all_busy']), list(nd['all_total']), NEXT_TYPE[nd.get('next_type')], opt(nd.get('next_shift')),
            (s['pos'] or 0) if s is not None else 0, opt(nd.get('ncc_date')), nd.get('ncc_ind'), sched_view(nd)]


def enc_state(s, cfg, next_active, now, cyc):
    n, k = cfg['n'], cfg['k']
    a = s['arr']
    dates = [[opt(a['dates'].get((nd, c))) for c in range(k)] for nd in range(1, n + 1)]
    arr = [a['created'], a['accepted'], dates, a['next_node'] or 0, a['next_class'] or 0, opt(a['next_date'])]
    nodes = [enc_node(nd) for nd in s['nodes']]
    inds = [enc_ind(s['inds'][i]) for i in sorted(s['inds'])]
    return [now if isinstance(now, int) else 0, next_active, arr, nodes, list(s['exit']['ids']), s['exit']['n'], s['exit']['completed'], inds,
            [list(r) for r in cyc]]


TWO53 = 2 ** 53


def _ticks(v):
    import obs
    return obs.tk(v)


def draws_of(cev):
    arr, batch, svc, unif, ren, cct = [], [], [], [], [], []
    for e in cev:
        if e[0] == 'ArrDraw':
            arr.append(e[3])
        elif e[0] == 'Batch':
            batch.append(e[3])
        elif e[0] == 'SvcTime':
            svc.append(e[4])
        elif e[0] == 'Unif':
            unif.append(int(e[1] * TWO53))
        elif e[0] == 'Draw' and e[1] == 'ren':
            ren.append(_ticks(e[7]))
        elif e[0] == 'Draw' and e[1] == 'cct':
            cct.append(_ticks(e[7]))
    return [arr, batch, svc, unif, ren, cct]


def cyc_after(cyc, cev, cfg):
    """Cycle routers keep an itertools.cycle whose position cannot be read: count the calls from the 'Route' events
    (one per next_node / next_node_for_rerouting of the (class, node) router)."""
    out = [list(r) for r in cyc]
    for e in cev:
        if e[0] == 'Route' and e[8] in (0, 1):
            node, cls = e[1], e[3]
            r = cfg['routing'][cls]
            if r['kind'] == 'nr' and r['routers'][node - 1]['kind'] == 'cycle':
                out[cls][node - 1] += 1
    return out


def enc_rec(e):
    r = e[3]
    def o(v):
        return v if isinstance(v, int) else None
    dst = r['destination']
    return [r['id'], r['cls'], r['ocls'], r['node'], r['type'], o(r['arrival_date']), o(r['waiting_time']), o(r['service_start_date']), o(r['service_time']),
            o(r['service_end_date']), o(r['time_blocked']), o(r['exit_date']), dst if isinstance(dst, int) else None,
            o(r['queue_size_at_arrival']), o(r['queue_size_at_departure']), o(r['server_id'])]


FIELDS = ['now', 'next_active', 'arrival_node', 'nodes', 'exit_ids', 'exit_n', 'exit_completed', 'individuals', 'cycle_pos']


def parse(txt):
    """minimal reader of the integer-tree wire format"""
    pos = [0]

    def item():
        while txt[pos[0]] == ' ':
            pos[0] += 1
        if txt[pos[0]] == '(':
            pos[0] += 1
            out = []
            while True:
                while txt[pos[0]] == ' ':
                    pos[0] += 1
                if txt[pos[0]] == ')':
                    pos[0] += 1
                    return out
                out.append(item())
        j = pos[0]
        while pos[0] < len(txt) and (txt[pos[0]] == '-' or txt[pos[0]].isdigit()):
            pos[0] += 1
        return int(txt[j:pos[0]])
    return item()


def norm(t):
    """the tree as the model prints it: None -> [] , 'inf' -> [0], bools -> ints"""
    if t is None:
        return []
    if t is True:
        return 1
    if t is False:
        return 0
    if t == 'inf':
        return [0]
    if isinstance(t, str):
        return [1]
    if isinstance(t, (list, tuple)):
        return [norm(x) for x in t]
    return t


IND_F = ['id', 'cls', 'pcls', 'ocls', 'prio', 'pprio', 'node', 'arr', 'sst', 'stime', 'send', 'exit', 'blocked', 'server', 'dest', 'qa', 'qd', 'nrec',
         'smark', 'interrupted', 'reneging_date', 'class_change_date', 'next_class', 'time_left', 'orig_stime', 'orig_sst', 'route']
SRV_F = ['id', 'cust', 'busy', 'next_end', 'busy_time', 'total_time', 'wrapped', 'offduty', 'start', 'shift_end']
NODE_F = ['id', 'pop', 'insvc', 'queues', 'servers', 'bq', 'lenbq', 'next_date', 'next_inds', 'c', 'highest_id', 'interrupted', 'nint', 'overtime',
          'all_busy', 'all_total', 'next_type', 'next_shift', 'sched_pos', 'ncc_date', 'ncc_ind', 'sched_view']
ARR_F = ['created', 'accepted', 'dates', 'next_node', 'next_cls', 'next_date']
REC_F = ['id', 'cls', 'ocls', 'node', 'type', 'arr', 'wait', 'sst', 'stime', 'send', 'blocked', 'exit', 'dest', 'qa', 'qd', 'server']


def _ent(kind, names, a, b, out):
    if len(a) != len(b):
        out.add((kind, '*'))
        return
    for n, x, y in zip(names, a, b):
        if x != y:
            out.add((kind, n))


def diff_fields(got, exp, got_recs, exp_recs):
    """the set of (entity kind, field) pairs on which model and implementation differ after one event"""
    out = set()
    for name, a, b in zip(FIELDS, got, exp):
        if a == b:
            continue
        if name == 'arrival_node':
            _ent('arr', ARR_F, a, b, out)
        elif name == 'nodes':
            if len(a) != len(b):
                out.add(('node', '*'))
            for x, y in zip(a, b):
                if x != y:
                    _ent('node', NODE_F, x, y, out)
                    if x[4] != y[4]:
                        if len(x[4]) != len(y[4]):
                            out.add(('server', '*'))
                        for sx_, sy in zip(x[4], y[4]):
                            if sx_ != sy:
                                _ent('server', SRV_F, sx_, sy, out)
        elif name == 'individuals':
            da = {x[0]: x for x in a}
            db = {x[0]: x for x in b}
            if set(da) != set(db):
                out.add(('ind', '*'))
            for i in set(da) & set(db):
                if da[i] != db[i]:
                    _ent('ind', IND_F, da[i], db[i], out)
        else:
            out.add(('top', name))
    if got_recs != exp_recs:
        if len(got_recs) != len(exp_recs):
            out.add(('rec', '*'))
        for x, y in zip(got_recs, exp_recs):
            if x != y:
                _ent('rec', REC_F, x, y, out)
    return out


# (exception type, innermost /repo function) -> the model's error sites (State2.v E_*) that stand for that raise
SITE_OF = {
    ('ValueError', 'node.py:release_blocked_individual'): (4,),          # list.index of a blocked-queue entry
    ('ValueError', 'node.py:release'): (3,),                             # individuals[prev_priority_class].remove
    ('ValueError', 'node.py:renege'): (3,),
    ('ValueError', 'node.py:change_priority_queue'): (3,),
    ('AttributeError', 'node.py:write_individual_record'): (5,),         # individual.server is False
    ('AttributeError', 'node.py:write_interruption_record'): (5,),
    ('AttributeError', 'node.py:detatch_server'): (5,),
    ('AttributeError', 'node.py:finish_service'): (5, 2),
    ('AttributeError', 'node.py:<genexpr>'): (5,),                       # s.cust.priority_class with s.cust False
    ('ValueError', 'node.py:decide_preempt'): (10,),                     # max() of no servers
    ('ValueError', 'node.py:kill_server'): (14,),
    ('ValueError', 'node.py:begin_interrupted_individuals_service'): (13, 15),
    ('IndexError', 'node.py:begin_interrupted_individuals_service'): (15,),
    ('IndexError', 'auxiliary.py:random_choice'): (7,),
    ('ValueError', 'arrival_node.py:batch_size'): (9,),
}


INV2_NAMES = ['wfx2', 'sched', 'next', 'svc2', 'ren', 'prio', 'rows2', 'blk2', 'srv2', 'idle2', 'clk2', 'cnt2', 'clk2r', 'noinv', 'slot', 'clk2p', 'clk2s']


def check_trace(tr, drv, max_frames=80, mask=None, detail=False, inv_mask=None, grid=None):
    """-> dict(frames, mismatch = first divergence that touches the mask (all fields when mask is None), other = number of
    frames that diverged only outside the mask)"""
    cfg = tr.cfg
    ecfg = enc_cfg(cfg, tr.init)
    prev = tr.init
    res = {'frames': 0, 'mismatch': None, 'other': 0}
    if not tr.frames:
        return res
    lab = tr.frames[0]['label']
    nxt = 0 if lab[0] == 'arrival' else lab[1]
    now = tr.frames[0]['now']
    ends = list(getattr(tr, 'run_ends', None) or [])
    runs = cfg['run'] if isinstance(cfg['run'][0], list) else [cfg['run']]
    cyc = [[0] * cfg['n'] for _ in range(cfg['k'])]
    ci = 0
    call_start = [0]

    def wrap_T(ci, k):
        """the argument of wrap_up_servers at the end of call ci, which returned after k events in total"""
        r = runs[ci]
        if r[0] == 'time':
            return r[1]
        if r[0] == 'cust':          # simulate_until_max_customers: previous_time
            if k > call_start[0]:
                return tr.frames[k - 1]['now']
            return (tr.init['now'] if ci == 0 else now)
        if r[0] == 'deadlock':      # simulate_until_deadlock: time_of_deadlock = the clock of the event that closed the knot
            return tr.frames[k - 1]['now'] if k > call_start[0] else None
        return None

    def do_wrap(ci, k):
        """call number ci returned after k events: its wrap-up changed the server statistics; model it from the current state.
        -> False when a mismatch was recorded"""
        T = wrap_T(ci, k)
        if isinstance(T, int):
            v = drv.ask(WRAP, sx.dump([ecfg, enc_state(prev, cfg, nxt, now if isinstance(now, int) else 0, cyc), T]))
            outw = parse(v[1]) if v[0] == 'M' else [9]
            if outw[0] == 0:
                expw = norm(enc_state(ends[ci]['final'], cfg, nxt, now if isinstance(now, int) else 0, cyc))
                dw = diff_fields(outw[1], expw, [], [])
                relw = dw if mask is None else set(x for x in dw if x in mask or (x[0], '*') in mask or x[1] == '*')
                if relw:
                    res['mismatch'] = {'frame': k, 'what': 'wrap_up_servers', 'call': ci, 'T': T, 'fields': sorted(relw)[:12]}
                    return False
                res['wrapups'] = res.get('wrapups', 0) + 1
                if dw:
                    res['other'] += 1
            else:
                res['mismatch'] = {'frame': k, 'what': 'wrap_up_servers model error', 'call': ci, 'code': outw[:2]}
                return False
        return True

    # the T2 invariants of the stage-2 engine (Inv/AllRun2.invs2_b, extracted) on the implementation's own snapshots
    def invs(state):
        v = drv.ask('m38', sx.dump([ecfg, state]))
        if v[0] != 'M':
            return None
        o = parse(v[1])
        return o if isinstance(o, list) else None
    res['inv_frames'] = 0
    # C03: the stage-2 journey invariant is about the state AND the cumulative record history AND the arrival nodes: all three real
    hist, spawned = [], []
    want_jrn = inv_mask is not None and 'jrn2' in inv_mask
    res['jrn_frames'] = 0
    # C20: grid = g > 1 when every time value of the configuration is a multiple of g: the hypotheses (timetable and time draws on the grid)
    # and the conclusion (every date / duration of the snapshot and of the records on the grid) of DateSum2.event_step_grid /
    # event_step_records on the real snapshots and records (dispatch_model 42)
    def on_grid(state, draws, recs, frame, label):
        gv = drv.ask('m42', sx.dump([grid, ecfg, state, draws, recs]))
        go = parse(gv[1]) if gv[0] == 'M' else None
        if not isinstance(go, list) or any(x != 1 for x in go):
            res['mismatch'] = {'frame': frame, 'what': 'grid (DateSum2): a date or duration of the real snapshot / records is not a multiple of g',
                               'g': grid, 'got [timetable, draws, state, records on grid]': go, 'label': label}
            return False
        res['grid_frames'] = res.get('grid_frames', 0) + 1
        return True
    if grid and not on_grid(enc_state(prev, cfg, nxt, now if isinstance(now, int) else 0, cyc), [[], [], [], [], [], []], [], 0, None):
        return res
    b0 = invs(enc_state(prev, cfg, nxt, now if isinstance(now, int) else 0, cyc))
    if b0 is None or any(x != 1 for x in b0):
        bad = [INV2_NAMES[i] for i, x in enumerate(b0 or []) if x != 1]
        res['mismatch'] = {'frame': 0, 'what': 'the initial snapshot does not satisfy the hypotheses of the stage-2 T2 theorems', 'invariants': bad, 'got': b0}
        return res
    for k, f in enumerate(tr.frames[:max_frames]):
        crossed = False
        while ci < len(ends) and ends[ci]['frames'] == k:
            if not do_wrap(ci, k):
                return res
            prev = ends[ci]['final']
            ci += 1
            call_start[0] = k
            crossed = True
        if crossed:
            # the next call re-enters the loop through find_next_active_node: take the event it chose
            nxt = 0 if f['label'][0] == 'arrival' else f['label'][1]
            now = f['now']
        if not isinstance(now, int):
            break
        pre = enc_state(prev, cfg, nxt, now, cyc)
        v = drv.ask(STEP, sx.dump([ecfg, pre, draws_of(f['cev'])]))
        if v[0] != 'M':
            res['mismatch'] = {'frame': k + 1, 'what': 'driver', 'detail': str(v)[:200]}
            return res
        out = parse(v[1])
        if out[0] != 0:
            res['mismatch'] = {'frame': k + 1, 'what': 'model error', 'code': out, 'label': f['label']}
            return res
        cyc = cyc_after(cyc, f['cev'], cfg)
        exp_state = norm(enc_state(f['snap'], cfg, f['next'], f['next_date'], cyc))
        got = out[1]
        if not isinstance(f['next_date'], int):
            got[0] = exp_state[0]          # every date infinite: the implementation's clock becomes inf, the model keeps it
        exp_recs = norm([enc_rec(e) for e in f['cev'] if e[0] == 'Record'])
        # C20 (grid mode): the REAL snapshot and records first, whatever the model says: a date off the grid is a failing input of the property
        if grid and isinstance(f['next_date'], int) and not on_grid(enc_state(f['snap'], cfg, f['next'], f['next_date'], cyc), draws_of(f['cev']), exp_recs, k + 1, f['label']):
            return res
        d = diff_fields(got, exp_state, out[2], exp_recs)
        if any(out[3]):
            d.add(('top', 'draws_left'))
        if d:
            rel = d if mask is None else set(x for x in d if x in mask or (x[0], '*') in mask or x[1] == '*')
            if rel:
                res['mismatch'] = {'frame': k + 1, 'what': 'state/records', 'label': f['label'], 'fields': sorted(rel)[:12], 'all_fields': sorted(d)[:20]}
                if detail:
                    res['mismatch']['got'] = got
                    res['mismatch']['exp'] = exp_state
                    res['mismatch']['got_recs'] = out[2]
                    res['mismatch']['exp_recs'] = exp_recs
                return res
            res['other'] += 1
        res['frames'] += 1
        prev, nxt, now = f['snap'], f['next'], f['next_date']
        if isinstance(now, int):
            bk = invs(enc_state(prev, cfg, nxt, now, cyc))
            if bk is None or any(x != 1 for x in bk):
                bad = [INV2_NAMES[i] for i, x in enumerate(bk or []) if x != 1]
                if inv_mask is None or any(b in inv_mask for b in bad) or not bad:
                    res['mismatch'] = {'frame': k + 1, 'what': 'a stage-2 T2 invariant does not hold on the real snapshot', 'invariants': bad, 'label': f['label']}
                    return res
                res['inv_other'] = res.get('inv_other', 0) + 1
            else:
                res['inv_frames'] += 1
            if want_jrn and k < 80:
                hist.extend(norm([enc_rec(e) for e in f['cev'] if e[0] == 'Record']))
                spawned.extend([[e[2], e[1]] for e in f['cev'] if e[0] == 'Spawn'])
                v = drv.ask('m40', sx.dump([ecfg, enc_state(prev, cfg, nxt, now, cyc), hist, spawned]))
                jv = v[1].strip() if v[0] == 'M' else str(v)
                if jv == '1':
                    res['jrn_frames'] += 1
                elif jv != '2':         # 2 = the configuration is outside Journey2.scope2: nothing is claimed
                    res['mismatch'] = {'frame': k + 1, 'what': 'the stage-2 journey invariant (Journey2.jrn2_b) does not hold on the real snapshot with the real record history', 'got': jv, 'label': f['label']}
                    return res
    # the calls that returned after the last compared event (normally: the end of the run)
    if res['mismatch'] is None and res['frames'] == len(tr.frames):
        while ci < len(ends) and ends[ci]['frames'] == len(tr.frames):
            if not do_wrap(ci, len(tr.frames)):
                return res
            prev = ends[ci]['final']
            ci += 1
            call_start[0] = len(tr.frames)
    # the run ended in an exception inside the next event: the model, run on that event with the draws consumed before the
    # raise, must stop at an error site too
    part = getattr(tr, 'partial', None)
    if (part is not None and tr.exc is not None and res['frames'] == len(tr.frames) and ci == len(ends) and isinstance(now, int)
            and not getattr(tr, 'stopped', False)):
        try:
            dr = draws_of(part['cev'])
        except Exception:
            dr = None
        if dr is not None:
            v = drv.ask(STEP, sx.dump([ecfg, enc_state(prev, cfg, nxt, now, cyc), dr]))
            out = parse(v[1]) if v[0] == 'M' else [9]
            res['exc'] = {'py': list(tr.exc[:2]), 'model': out[:2] if out[0] in (1, 2, 3) else [out[0]]}
            want = SITE_OF.get(tuple(tr.exc[:2]))
            if out[0] != 1:
                res['mismatch'] = {'frame': len(tr.frames) + 1, 'what': 'implementation raised, model did not', 'label': part['label'],
                                   'py': list(tr.exc), 'model': out[:1]}
            elif want is not None and out[1] not in want:
                res['mismatch'] = {'frame': len(tr.frames) + 1, 'what': 'implementation and model stop at different sites', 'label': part['label'],
                                   'py': list(tr.exc), 'model': out[:2], 'expected_sites': list(want)}
    return res

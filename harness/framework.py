"""framework.py -- shared machinery of ./check: proof-obligation step, parallel
observed runs of the implementation, extracted-acceptor verdicts, known-finding
matching, replay files, evidence."""
import os, sys, json, time, subprocess, hashlib, re, multiprocessing, traceback, glob

VERIF = os.path.dirname(os.path.dirname(os.path.abspath(__file__)))
COQ = os.path.join(VERIF, 'coq')
BUILD = os.path.join(VERIF, 'build')
DRIVER = os.path.join(BUILD, 'driver')
REPLAYS = os.path.join(BUILD, 'replays')
ALLOWED_AXIOMS = set(l.strip() for l in open(os.path.join(COQ, 'ALLOWED_AXIOMS')) if l.strip() and not l.startswith('#')) \
    if os.path.exists(os.path.join(COQ, 'ALLOWED_AXIOMS')) else set()

TRUSTED_BASE = [
    'Coq 8.16.1 kernel (coqc, full .vo build; vm_compute used for Examples/_refuted witnesses; no native_compute)',
    'Coq standard library and coq-record-update (record setters in Engine/ and Inv/); no axioms declared in /verif/coq (scan for Axiom/Parameter/Admitted on every run over the files of _CoqProject); Print Assumptions of every statement: closed under the global context',
    'Extraction with ExtrOcamlBasic only (bool/option/unit/list/prod/sumbool/sumor to OCaml types; Z, N, positive, nat stay Coq inductives; no Extract Constant), OCaml 4.13.1 compiler and runtime',
    'ocaml/driver.ml: parser of the integer-tree wire format and decimal<->Z conversion (no property logic)',
    'harness/obs.py: behaviour-free tracing subclasses of the real Ciw classes, snapshot printer, tick scaling with exactness guard',
    'the hand-written Gallina models are tied to /repo by correspondence testing on generated inputs, not by proof',
    'binary floating-point rounding is outside the model: generators use dyadic grids on which every float operation is exact',
]


class Prop:
    id = None
    num = None
    regions = {}
    rule = ''
    clause_text = {}
    exc_is_violation = False
    min_frames = 3
    level_text = ''

    def jobs(self, tier, seed):
        regs = self.regions.get(tier) or self.regions['quick']
        mult = 1 if tier == 'quick' else self.thorough_mult
        out = []
        for region, count in regs:
            for i in range(count * mult):
                out.append({'region': region, 'gseed': seed * 100003 + i, 'size': 'quick' if tier == 'quick' else ('big' if i % 3 == 0 else 'quick'), 'k2x': 1 if tier == 'quick' else 5})
        return out

    thorough_mult = 25

    def project(self, tr):
        raise NotImplementedError

    def nontrivial(self, tr):
        return len(tr.frames) >= 10

    def sample(self, tr):
        return {'frames': len(tr.frames)}

    def stats(self, tr):
        return {}


# ------------------------------------------------------------------ driver subprocess
class Driver:
    def __init__(self):
        self.p = None

    def ask(self, name, text):
        if self.p is None or self.p.poll() is not None:
            self.p = subprocess.Popen(['/bin/sh', '-c', 'ulimit -s unlimited 2>/dev/null; exec ' + DRIVER],
                                      stdin=subprocess.PIPE, stdout=subprocess.PIPE, text=True, bufsize=1)
        self.p.stdin.write('%s %s\n' % (name, text))
        self.p.stdin.flush()
        line = self.p.stdout.readline()
        if not line:
            self.p = None
            return ('E', 'driver died')
        parts = line.split()
        if parts[0] == 'A':
            return ('A', [int(x) for x in parts[1:]])
        if parts[0] == 'R':
            return ('R', int(parts[1]), int(parts[2]), [int(x) for x in parts[3:]])
        if parts[0] == 'B':
            return ('B', int(parts[1]))
        if parts[0] == 'M':
            return ('M', line[2:].strip())
        return ('E', line.strip())


_DRV = Driver()


def cfg_hash(cfg):
    c = {k: v for k, v in cfg.items() if k not in ('gen_seed', 'region')}
    return hashlib.sha1(json.dumps(c, sort_keys=True, default=str).encode()).hexdigest()[:16]


def load_prop(pid):
    sys.path.insert(0, os.path.join(VERIF, 'harness'))
    mod = __import__('props.%s' % pid.lower(), fromlist=['PROP'])
    return mod.PROP


# ------------------------------------------------------------------ worker
def work(job):
    """One case: generate (or take) a configuration, run the implementation from
    /repo under observation, run the extracted acceptor on the projection."""
    try:
        return _work(job)
    except Exception as e:
        return {'status': 'harness_error', 'error': traceback.format_exc()[-1500:], 'job': {k: v for k, v in job.items() if k != 'cfg'}}


def _work(job):
    import gen, netbuild, sx, findings
    prop = load_prop(job['prop'])
    if job.get('custom'):
        return prop.custom_work(job, _DRV)
    if isinstance(job.get('cfg'), dict) and isinstance(job['cfg'].get('replay_job'), dict) and job['cfg']['replay_job'].get('custom'):
        # --replay of a case produced by a custom job: the replay file's cfg names the custom job kind
        return prop.custom_work(dict(job, **job['cfg']['replay_job']), _DRV)
    cfg = job.get('cfg') or gen.gen(job['region'], job['gseed'], job.get('size', 'quick'))
    if hasattr(prop, 'adjust'):
        cfg = prop.adjust(cfg, job)
    res = {'region': cfg.get('region'), 'gseed': cfg.get('gen_seed'), 'hash': cfg_hash(cfg)}
    tr = netbuild.run_cfg(cfg, max_frames=cfg.get('max_frames'), script_u=job.get('script_u'))
    res['nframes'] = len(tr.frames)
    if getattr(tr, 'rejected', False):
        res['status'] = 'cfg_rejected'
        res['exc'] = tr.exc
        return res
    if tr.exc and tr.exc[0] == 'Inexact':
        res['status'] = 'inexact'
        return res
    res['exc'] = tr.exc
    if tr.init is None:
        res['status'] = 'init_failed'
        res['cfg'] = cfg
        return res
    tree = prop.project(tr)
    text = sx.dump(tree)
    v = _DRV.ask(prop.num, text)
    # a rejection on a mechanism-only clause: ask again in relaxed mode (property clauses only) to see
    # whether a genuine failing input is at hand; if not the case is reported as a broken correspondence
    if v[0] == 'R' and v[2] in getattr(prop, 'soft_clauses', ()):
        v2 = _DRV.ask(prop.num, sx.dump(prop.project(tr, relaxed=True)))
        if v2[0] == 'A':
            res['soft'] = {'clause': v[2], 'frame': v[1]}
        else:
            v = v2
    res['verdict'] = v
    # K2: stepwise correspondence of the Gallina engine model with the implementation on this property's slice
    if getattr(prop, 'k2_mask', None) is not None and v[0] == 'A' and tr.exc is None:
        import engine_k2
        if engine_k2.in_scope(cfg):
            k2 = engine_k2.check_trace(tr, _DRV, max_frames=getattr(prop, 'k2_frames', 60) * job.get('k2x', 1), mask=prop.k2_mask or None, inv_mask=getattr(prop, 'k2_invs', None))
            res['k2'] = {'frames': k2['frames'], 'other': k2['other'], 'inv_frames': k2.get('inv_frames', 0), 'jrn_frames': k2.get('jrn_frames', 0)}
            if k2['mismatch'] and 'soft' not in res:
                res['soft'] = {'clause': 900, 'frame': k2['mismatch'].get('frame'), 'k2': k2['mismatch']}
        else:
            # outside the stage-1 scope: the stage-2 engine model (routers, reneging, pre-emption, schedules, slots, class change while
            # waiting, server priority functions), same stepwise comparison from the implementation's own snapshots and draws
            import engine_k2b
            if engine_k2b.in_scope(cfg):
                k2 = engine_k2b.check_trace(tr, _DRV, max_frames=getattr(prop, 'k2_frames', 60) * job.get('k2x', 1), mask=(getattr(prop, 'k2_mask2', None) or prop.k2_mask) or None, inv_mask=getattr(prop, 'k2_invs2', set()))
                res['k2b'] = {'frames': k2['frames'], 'other': k2['other'], 'inv_frames': k2.get('inv_frames', 0), 'inv_other': k2.get('inv_other', 0), 'jrn_frames': k2.get('jrn_frames', 0)}
                if k2['mismatch'] and 'soft' not in res:
                    res['soft'] = {'clause': 900, 'frame': k2['mismatch'].get('frame'), 'k2': k2['mismatch'], 'stage': 2}
    # a property's own additional correspondence between a Coq definition and the real engine's states (soft clause 901)
    if hasattr(prop, 'extra_corr') and v[0] == 'A' and tr.exc is None and 'soft' not in res:
        ex = prop.extra_corr(tr, _DRV)
        if ex:
            res['extra'] = ex.get('stats')
            if ex.get('mismatch'):
                res['soft'] = {'clause': 901, 'frame': ex['mismatch'].get('frame'), 'k2': ex['mismatch']}
    res['nontrivial'] = bool(prop.nontrivial(tr)) and len(tr.frames) >= prop.min_frames
    res['stats'] = prop.stats(tr)
    res['status'] = 'ok'
    bad = v[0] != 'A' or (tr.exc is not None and prop.exc_is_violation)
    if 'soft' in res and res['soft'].get('clause') in (900, 901):
        res['soft']['cfg'] = cfg
        res['soft']['finding'] = None
        res['soft']['detail'] = res['soft'].get('k2')
    if bad and 'soft' in res:
        res['soft']['cfg'] = cfg
        res['soft']['finding'] = findings.match(prop.id, cfg, tr, v)
        res['soft']['detail'] = prop.explain(tr, v) if hasattr(prop, 'explain') else None
        bad = False
        res['verdict'] = ('A', [])
    if bad:
        res['cfg'] = cfg
        res['finding'] = findings.match(prop.id, cfg, tr, v)
        res['detail'] = prop.explain(tr, v) if hasattr(prop, 'explain') else None
    if job.get('want_sample'):
        res['sample'] = prop.sample(tr)
        res['sample']['verdict'] = list(v[:1]) + [v[1] if len(v) > 1 else None]
    if job.get('want_kernel'):
        res['kernel_case'] = sx.to_coq(tree) if len(text) < 60000 else None
    return res


# ------------------------------------------------------------------ proof step
FORBIDDEN = re.compile(r'\b(Admitted|admit|Axiom|Parameter|Conjecture|Admit Obligations|Unset Guard Checking|bypass_check|Unset Positivity|Unset Universe Checking|type-in-type|impredicative-set)\b')


def scan_sources():
    bad = []
    # the development = the files listed in _CoqProject (what `make` builds and the theorems rest on); files a builder is still
    # writing next to them are not part of it until they are listed there
    listed = set(l.strip() for l in open(os.path.join(COQ, '_CoqProject')) if l.strip().endswith('.v'))
    for path in glob.glob(os.path.join(COQ, '**', '*.v'), recursive=True):
        if '/cases/' in path or os.path.relpath(path, COQ) not in listed:
            continue
        src = open(path).read()
        # strip comments (non-nested is enough for our sources) before scanning
        code = re.sub(r'\(\*.*?\*\)', '', src, flags=re.S)
        for m in FORBIDDEN.finditer(code):
            bad.append('%s: %s' % (os.path.relpath(path, VERIF), m.group(1)))
    for f in ('_CoqProject',):
        txt = open(os.path.join(COQ, f)).read()
        if 'type-in-type' in txt or 'impredicative-set' in txt:
            bad.append('_CoqProject: forbidden flag')
    return bad


def proof_step(pid, thorough=False):
    """incremental make, fresh compile of Properties/<id>.v for its Print Assumptions
    output, source scan.  Returns dict(ok, obligations, discharged, axioms, log)."""
    out = {'ok': True, 'log': []}
    if not os.path.exists(os.path.join(COQ, 'Makefile')):
        subprocess.run('flock %s/.make.lock coq_makefile -f _CoqProject -o Makefile' % BUILD, shell=True, cwd=COQ, capture_output=True)
    os.makedirs(BUILD, exist_ok=True)
    r = subprocess.run('flock %s/.make.lock timeout 1500 make -j8' % BUILD, shell=True, cwd=COQ, capture_output=True, text=True)
    if r.returncode != 0:
        out['ok'] = False
        out['log'].append('make failed: ' + (r.stdout + r.stderr)[-1500:])
        out['broken'] = 'build'
    if not os.path.exists(DRIVER) or os.path.getmtime(DRIVER) < os.path.getmtime(os.path.join(COQ, 'ciwx.ml')):
        r2 = subprocess.run('flock %s/.make.lock %s' % (BUILD, os.path.join(VERIF, 'ocaml', 'build.sh')), shell=True, capture_output=True, text=True)
        if r2.returncode != 0:
            out['ok'] = False
            out['log'].append('driver build failed: ' + (r2.stdout + r2.stderr)[-800:])
    pf = os.path.join(COQ, 'Properties', pid + '.v')
    src = open(pf).read()
    thms = re.findall(r'^(?:Theorem|Lemma|Corollary|Example)\s+(\w+)', src, flags=re.M)
    out['obligations'] = len(thms)
    out['theorems'] = thms
    flags = open(os.path.join(COQ, '_CoqProject')).read().split('\n')
    qflags = ' '.join(l for l in flags if l.startswith('-Q') or l.startswith('-R'))
    r = subprocess.run('timeout 600 coqc %s Properties/%s.v' % (qflags, pid), shell=True, cwd=COQ, capture_output=True, text=True)
    txt = r.stdout + r.stderr
    if r.returncode != 0:
        out['ok'] = False
        out['broken'] = 'Properties/%s.v' % pid
        out['log'].append('coqc Properties/%s.v failed: %s' % (pid, txt[-1500:]))
        out['discharged'] = 0
        out['axioms'] = []
    else:
        closed = txt.count('Closed under the global context')
        axioms = []
        for blk in re.findall(r'Axioms:\n((?:.+\n?)+?)(?=\n\S|\Z)', txt):
            for l in blk.split('\n'):
                m = re.match(r'^(\S+)\s*:', l)
                if m:
                    axioms.append(m.group(1))
        n_ax_blocks = txt.count('Axioms:')
        bad_ax = [a for a in axioms if a not in ALLOWED_AXIOMS]
        out['axioms'] = sorted(set(axioms))
        out['discharged'] = closed + n_ax_blocks if not bad_ax else closed
        if bad_ax:
            out['ok'] = False
            out['log'].append('axioms outside the allow-list: %s' % bad_ax)
        if closed + n_ax_blocks < len(thms):
            # every theorem must be followed by Print Assumptions
            out['ok'] = False
            out['log'].append('fewer Print Assumptions outputs (%d) than theorems (%d)' % (closed + n_ax_blocks, len(thms)))
    # statements about the stage-2 engine model live in a file of their own (State2 / Engine2 share names with State / Engine)
    for suffix in ('_stage2', '_engine'):
      pf2 = os.path.join(COQ, 'Properties', pid + suffix + '.v')
      if os.path.exists(pf2):
          thms2 = re.findall(r'^(?:Theorem|Lemma|Corollary|Example)\s+(\w+)', open(pf2).read(), flags=re.M)
          out['obligations'] += len(thms2)
          out['theorems'] = out['theorems'] + [suffix[1:] + '.' + t for t in thms2]
          r2 = subprocess.run('timeout 900 coqc %s Properties/%s%s.v' % (qflags, pid, suffix), shell=True, cwd=COQ, capture_output=True, text=True)
          txt2 = r2.stdout + r2.stderr
          closed2 = txt2.count('Closed under the global context')
          if r2.returncode != 0 or 'Axioms:' in txt2 or closed2 < len(thms2):
              out['ok'] = False
              out['broken'] = out.get('broken') or 'Properties/%s%s.v' % (pid, suffix)
              out['log'].append('coqc Properties/%s%s.v: rc=%d, %d of %d closed: %s' % (pid, suffix, r2.returncode, closed2, len(thms2), txt2[-800:]))
          out['discharged'] = out.get('discharged', 0) + min(closed2, len(thms2))
    bad = scan_sources()
    if bad:
        out['ok'] = False
        out['log'].append('forbidden constructs: %s' % bad[:5])
    out['checker_cmd'] = 'make -C coq (coq_makefile, full .vo) ; coqc Properties/%s.v ; Print Assumptions under every theorem' % pid
    if thorough:
        r = subprocess.run('timeout 900 coqchk -silent -o %s CiwV.Properties.%s' % (qflags, pid), shell=True, cwd=COQ, capture_output=True, text=True)
        out['coqchk'] = (r.stdout + r.stderr)[-1200:]
        if r.returncode != 0:
            out['ok'] = False
            out['log'].append('coqchk failed')
        out['checker_cmd'] += ' ; coqchk -o CiwV.Properties.%s' % pid
        pf2 = os.path.join(COQ, 'Properties', pid + '_stage2.v')
        if os.path.exists(pf2):
            r = subprocess.run('timeout 1200 coqchk -silent -o %s CiwV.Properties.%s_stage2' % (qflags, pid), shell=True, cwd=COQ, capture_output=True, text=True)
            out['coqchk_stage2'] = (r.stdout + r.stderr)[-1200:]
            if r.returncode != 0:
                out['ok'] = False
                out['log'].append('coqchk failed on the stage-2 statements')
            out['checker_cmd'] += ' ; coqchk -o CiwV.Properties.%s_stage2' % pid
    return out


# ------------------------------------------------------------------ kernel cross-check
def kernel_crosscheck(prop, cases):
    """evaluate the same acceptor inside coqc by vm_compute on a few cases and compare
    with the extracted binary's verdicts.  cases = [(coq_term, verdict_tuple)]"""
    if not cases:
        return {'cases': 0, 'agree': 0}
    d = os.path.join(COQ, 'cases')
    os.makedirs(d, exist_ok=True)
    fn = os.path.join(d, 'k_%s_%d.v' % (prop.id, os.getpid()))
    with open(fn, 'w') as f:
        f.write('From Coq Require Import ZArith List.\nFrom CiwV Require Import Sx Dispatch.\nImport ListNotations.\nOpen Scope Z_scope.\n')
        f.write('Definition tag (v : verdict) : Z := match v with Accept _ => 0 | Reject f c _ => 1000000 + f * 1000 + c | BadInput c => 2000000 + c end.\n')
        for i, (term, v) in enumerate(cases):
            f.write('Definition case%d : sx := %s.\n' % (i, term))
        f.write('Eval vm_compute in [%s].\n' % '; '.join('tag (dispatch %d case%d)' % (prop.num, i) for i in range(len(cases))))
    flags = open(os.path.join(COQ, '_CoqProject')).read().split('\n')
    qflags = ' '.join(l for l in flags if l.startswith('-Q'))
    r = subprocess.run('ulimit -s unlimited; timeout 300 coqc %s %s' % (qflags, fn), shell=True, cwd=COQ, capture_output=True, text=True)
    for ext in ('.v', '.vo', '.glob', '.vok', '.vos'):
        try:
            os.remove(fn[:-2] + ext)
        except OSError:
            pass
    try:
        os.remove(os.path.join(d, '.k_%s_%d.aux' % (prop.id, os.getpid())))
    except OSError:
        pass
    if r.returncode != 0:
        return {'cases': len(cases), 'agree': 0, 'error': (r.stdout + r.stderr)[-600:]}
    nums = [int(x) for x in re.findall(r'-?\d+', r.stdout.split('=')[1].split(':')[0])] if '=' in r.stdout else []
    exp = []
    for term, v in cases:
        if v[0] == 'A':
            exp.append(0)
        elif v[0] == 'R':
            exp.append(1000000 + v[1] * 1000 + v[2])
        elif v[0] == 'B':
            exp.append(2000000 + v[1])
        else:
            exp.append(-1)
    agree = sum(1 for a, b in zip(nums, exp) if a == b)
    return {'cases': len(cases), 'agree': agree, 'kernel': nums[:5], 'extracted': exp[:5]}


# ------------------------------------------------------------------ main check
def run_check(pid, tier, seed, replay=None):
    import findings
    t0 = time.time()
    prop = load_prop(pid)
    os.makedirs(REPLAYS, exist_ok=True)
    EVDIR = os.environ.get('VERIF_EVIDENCE_DIR') or os.path.join(VERIF, 'evidence')
    os.makedirs(EVDIR, exist_ok=True)
    pr = proof_step(pid, thorough=(tier == 'thorough'))
    lines = []
    if replay:
        rp = json.load(open(replay))
        jobs = [dict(rp.get('job', {}), prop=pid, cfg=rp.get('cfg'), want_sample=True)]
    else:
        jobs = []
        # corpus first
        for path in sorted(glob.glob(os.path.join(VERIF, 'corpus', pid, '*.json'))):
            c = json.load(open(path))
            jobs.append(dict(c.get('job', {}), prop=pid, cfg=c.get('cfg'), corpus=os.path.basename(path)))
        gj = prop.jobs(tier, seed)
        for i, j in enumerate(gj):
            j['prop'] = pid
            if i % max(1, len(gj) // 6) == 0:
                j['want_sample'] = True
            if i % max(1, len(gj) // (12 if tier == 'quick' else 60)) == 1:
                j['want_kernel'] = True
        jobs += gj
    nproc = min(16, os.cpu_count() or 4)
    results = []
    if not os.path.exists(DRIVER):
        pr['ok'] = False
        pr['log'].append('driver binary missing')
    else:
        # workers are recycled (long runs of big networks fragment the heap: 16 workers grew to 3 GB each and one was killed by the
        # kernel, after which Pool.imap waits for ever for its task); every job is waited for with a time limit, so that a lost
        # worker shows up as a harness error of that job instead of a hang
        with multiprocessing.Pool(nproc, maxtasksperchild=30) as pool:
            pending = [(j, pool.apply_async(work, (j,))) for j in jobs]
            for j, a in pending:
                try:
                    results.append(a.get(timeout=2400))
                except multiprocessing.TimeoutError:
                    results.append({'status': 'harness_error', 'error': 'no result after 40 min: worker lost or job too long',
                                    'job': {k: v for k, v in j.items() if k != 'cfg'}})
    # ---- aggregate
    cov = {'evaluations': 0, 'accepted': 0, 'rejected': 0, 'cfg_rejected': 0, 'inexact_discarded': 0, 'impl_exceptions': 0,
           'harness_errors': 0, 'frames': 0, 'by_region': {}, 'exceptions': {}}
    nontriv = set()
    samples = []
    kernel_cases = []
    violations = []
    known_hit = {}
    k2tot = {'runs': 0, 'frames': 0, 'other_slices_diverged': 0, 'real_snapshots_satisfying_the_T2_invariants': 0}
    known_clauses = {}
    agg_stats = {}
    for r in results:
        st = r.get('status')
        if st == 'harness_error':
            cov['harness_errors'] += 1
            violations.append({'kind': 'harness_error', 'error': r['error'], 'job': r.get('job')})
            continue
        if st == 'cfg_rejected':
            cov['cfg_rejected'] += 1
            continue
        if st == 'inexact':
            cov['inexact_discarded'] += 1
            continue
        if st == 'init_failed':
            cov['impl_exceptions'] += 1
            k = str(r.get('exc'))
            cov['exceptions'][k] = cov['exceptions'].get(k, 0) + 1
            if prop.exc_is_violation:
                f = findings.match_init(pid, r.get('cfg'), r.get('exc'))
                if f:
                    known_hit[f] = known_hit.get(f, 0) + 1
                else:
                    violations.append({'kind': 'exception', 'cfg': r.get('cfg'), 'exc': r.get('exc')})
            continue
        cov['evaluations'] += 1
        cov['frames'] += r.get('nframes', 0)
        reg = r.get('region') or 'custom'
        cov['by_region'][reg] = cov['by_region'].get(reg, 0) + 1
        for k2, v2 in (r.get('stats') or {}).items():
            agg_stats[k2] = agg_stats.get(k2, 0) + v2
        if r.get('extra'):
            for kk, vv in r['extra'].items():
                k2tot[kk] = k2tot.get(kk, 0) + vv
        if r.get('k2b'):
            k2tot['stage2_runs'] = k2tot.get('stage2_runs', 0) + 1
            k2tot['stage2_frames'] = k2tot.get('stage2_frames', 0) + r['k2b']['frames']
            k2tot['stage2_other_slices_diverged'] = k2tot.get('stage2_other_slices_diverged', 0) + r['k2b']['other']
            k2tot['stage2_real_snapshots_satisfying_the_T2_invariants'] = k2tot.get('stage2_real_snapshots_satisfying_the_T2_invariants', 0) + r['k2b'].get('inv_frames', 0)
            if r['k2b'].get('jrn_frames'):
                k2tot['stage2_real_snapshots_with_real_history_satisfying_the_journey_invariant'] = k2tot.get('stage2_real_snapshots_with_real_history_satisfying_the_journey_invariant', 0) + r['k2b']['jrn_frames']
            k2tot['stage2_snapshots_failing_an_invariant_of_another_property'] = k2tot.get('stage2_snapshots_failing_an_invariant_of_another_property', 0) + r['k2b'].get('inv_other', 0)
        if r.get('k2'):
            k2tot['runs'] += 1
            k2tot['frames'] += r['k2']['frames']
            k2tot['other_slices_diverged'] += r['k2']['other']
            k2tot['real_snapshots_satisfying_the_T2_invariants'] += r['k2'].get('inv_frames', 0)
            if r['k2'].get('jrn_frames'):
                k2tot['real_snapshots_with_real_history_satisfying_the_journey_invariant'] = k2tot.get('real_snapshots_with_real_history_satisfying_the_journey_invariant', 0) + r['k2']['jrn_frames']
        if r.get('exc'):
            cov['impl_exceptions'] += 1
            k = '%s@%s' % (r['exc'][0], r['exc'][1])
            cov['exceptions'][k] = cov['exceptions'].get(k, 0) + 1
        v = r['verdict']
        if r.get('nontrivial') and v[0] == 'A':
            nontriv.add(r['hash'])
        if 'sample' in r and len(samples) < 6:
            samples.append(r['sample'])
        if r.get('kernel_case') and len(kernel_cases) < (4 if tier == 'quick' else 20):
            kernel_cases.append((r['kernel_case'], v))
        bad = ('cfg' in r)
        if v[0] == 'A' and not bad:
            cov['accepted'] += 1
        elif bad:
            if v[0] != 'A':
                cov['rejected'] += 1
            f = r.get('finding')
            if f:
                known_hit[f] = known_hit.get(f, 0) + 1
                kc_ = known_clauses.setdefault(f, {})
                ck = str(v[2]) if v[0] == 'R' else 'exception'
                kc_[ck] = kc_.get(ck, 0) + 1
                if os.environ.get('VERIF_SAVE_KNOWN'):
                    cp = os.path.join(VERIF, 'corpus', pid, '%s.json' % f.lower().replace('-', ''))
                    if not os.path.exists(cp):
                        os.makedirs(os.path.dirname(cp), exist_ok=True)
                        json.dump({'cfg': r['cfg'], 'note': 'hits known finding %s' % f}, open(cp, 'w'))
            else:
                violations.append({'kind': 'rejected' if v[0] != 'A' else 'exception', 'cfg': r['cfg'], 'verdict': v, 'exc': r.get('exc'),
                                   'detail': r.get('detail'),
                                   'clause': prop.clause_text.get(v[2]) if v[0] == 'R' else None})
    # findings a custom job reproduced by replaying a recorded witness (only ids listed as open for this property count)
    for r in results:
        for f, cnt in (r.get('known') or {}).items():
            if f in findings.open_ids(pid):
                known_hit[f] = known_hit.get(f, 0) + cnt
    kc = kernel_crosscheck(prop, kernel_cases) if pr['ok'] or os.path.exists(DRIVER) else {'cases': 0, 'agree': 0}
    if kc.get('cases') and kc.get('agree') != kc.get('cases'):
        violations.append({'kind': 'kernel_extraction_disagree', 'detail': kc})
    # ---- verdict
    exit_code = 0
    for f, cnt in sorted(known_hit.items()):
        lines.append('KNOWN-FINDING: property=%s %s (%s) hit %d time(s)' % (pid, f, findings.describe(f), cnt))
    for i, viol in enumerate(violations[:5]):
        path = os.path.join(REPLAYS, '%s_%s_%d.json' % (pid, tier, i))
        json.dump(dict(viol, property=pid, job={'prop': pid}), open(path, 'w'), indent=1, default=str)
        lines.append('VIOLATION property=%s replay=%s' % (pid, path))
        exit_code = 1
    softs = [r['soft'] for r in results if r.get('soft')]
    cov_soft = len(softs)
    for s0 in softs:
        if s0.get('finding'):
            known_hit[s0['finding']] = known_hit.get(s0['finding'], 0) + 1
    softs = [s0 for s0 in softs if not s0.get('finding')]
    lines[:] = ['KNOWN-FINDING: property=%s %s (%s) hit %d time(s)' % (pid, f, findings.describe(f), cnt) for f, cnt in sorted(known_hit.items())] + [l for l in lines if not l.startswith('KNOWN-FINDING')]
    if softs and exit_code == 0:
        path = os.path.join(REPLAYS, '%s_%s_correspondence.json' % (pid, tier))
        s0 = softs[0]
        json.dump({'property': pid, 'kind': 'correspondence', 'clause': s0['clause'], 'clause_text': prop.clause_text.get(s0['clause']) or ('K2: the Gallina engine model (coq/Engine) and the implementation disagree on this property\'s slice after one event' if s0['clause'] == 900 else None),
                   'frame': s0['frame'], 'cfg': s0['cfg'], 'detail': s0.get('detail'), 'cases_with_mechanism_divergence': len(softs),
                   'note': 'the mechanism clause (model/implementation correspondence) no longer checks; the property clauses held on '
                           'all %d generated runs including this one' % cov['evaluations'], 'job': {'prop': pid}},
                  open(path, 'w'), indent=1, default=str)
        lines.append('VIOLATION property=%s replay=%s no-failing-input-found' % (pid, path))
        exit_code = 1
    if not pr['ok'] and exit_code == 0:
        path = os.path.join(REPLAYS, '%s_%s_proof.json' % (pid, tier))
        json.dump({'property': pid, 'broken': pr.get('broken'), 'log': pr['log'],
                   'note': 'proof obligation or build no longer checks; search over %d generated runs found no failing input' % cov['evaluations']},
                  open(path, 'w'), indent=1)
        lines.append('VIOLATION property=%s replay=%s no-failing-input-found' % (pid, path))
        exit_code = 1
    # stale known findings: listed as open with a corpus input that no longer fails is reported in evidence only
    cov.update({'distinct_nontrivial': len(nontriv), 'rule': prop.rule, 'samples': samples or [{'note': 'no sample'}],
                'traces_validated_against_impl': cov['accepted'],
                'obligations': pr.get('obligations', 0), 'discharged': pr.get('discharged', 0),
                'theorems': pr.get('theorems', []),
                'checker_cmd': pr.get('checker_cmd', ''), 'trusted_base': TRUSTED_BASE,
                'axioms_reported_by_Print_Assumptions': pr.get('axioms', []),
                'kernel_crosscheck': kc, 'known_findings_hit': known_hit, 'known_findings_clauses': known_clauses, 'mechanism_stats': agg_stats,
                'proof_log': pr['log'], 'mechanism_divergences': cov_soft, 'k2_engine_correspondence': k2tot, 'violations_detail': [{k: v for k, v in x.items() if k != 'cfg'} for x in violations[:3]]})
    if 'coqchk' in pr:
        cov['coqchk'] = pr['coqchk']
    if hasattr(prop, 'extra_coverage'):
        cov.update(prop.extra_coverage(results))
    ev = {'property_id': pid, 'tier': tier, 'seed': seed, 'level': 'proof', 'coverage': cov,
          'assumptions': getattr(prop, 'assumptions', []) + ['exact arithmetic on ticks; float rounding not modelled'],
          'wall_s': round(time.time() - t0, 2), 'violations': len(violations)}
    json.dump(ev, open(os.path.join(EVDIR, pid + '.json'), 'w'), indent=1, default=str)
    for l in lines:
        print(l)
    print('%s %s: %d runs, %d accepted, %d non-trivial, %d rejected, %d known, proofs %s/%s, %.1fs' % (
        pid, tier, cov['evaluations'], cov['accepted'], len(nontriv), cov['rejected'], sum(known_hit.values()),
        pr.get('discharged'), pr.get('obligations'), time.time() - t0))
    return exit_code
